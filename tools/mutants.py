#!/venv/bin/python
"""Sensitivity harness: apply recorded mutants to a scratch copy of /repo, check that
(1) the repository's own tests still pass on the mutant and (2) the quick check exits 1.

usage: tools/mutants.py [ID ...] [--tests] [--tier quick]
Mutants live in tools/mutants.json: {"C01": [{"name":..., "file":..., "old":..., "new":..., "count":1}, ...]}
The scratch copy is made under $TMPDIR (never inside /repo or /verif) and removed afterwards.
"""
import json
import os
import shutil
import subprocess
import sys
import tempfile
import time

HERE = os.path.dirname(os.path.abspath(__file__))
VERIF = os.path.dirname(HERE)
REPO = os.environ.get("VERIF_REPO", "/repo")


def make_copy():
    d = tempfile.mkdtemp(prefix="curtsies-mut-")
    shutil.copytree(REPO, os.path.join(d, "repo"), ignore=shutil.ignore_patterns(".git", "__pycache__", "*.pyc", ".pytest_cache"))
    return d, os.path.join(d, "repo")


def apply(repo, m):
    path = os.path.join(repo, m["file"])
    src = open(path, encoding="utf-8").read()
    if src.count(m["old"]) != m.get("count", 1):
        raise SystemExit(f"mutant {m['name']}: expected {m.get('count', 1)} occurrence(s) of old text, found {src.count(m['old'])}")
    open(path, "w", encoding="utf-8").write(src.replace(m["old"], m["new"]))


def run_tests(repo):
    p = subprocess.run(
        ["/venv/bin/python", "-m", "pytest", "-q", "-p", "no:cacheprovider", "-x", "tests"],
        cwd=repo, capture_output=True, text=True, env={**os.environ, "PYTHONPATH": repo},
    )
    return p.returncode == 0, p.stdout[-300:]


def main():
    args = [a for a in sys.argv[1:] if not a.startswith("--")]
    do_tests = "--tests" in sys.argv
    tier = "quick"
    only = None
    for a in sys.argv[1:]:
        if a.startswith("--only="):
            only = a[7:]
    spec = json.load(open(os.path.join(HERE, "mutants.json")))
    ids = args or sorted(spec)
    rows = []
    for pid in ids:
        for m in spec.get(pid, []):
            if only and only not in m["name"]:
                continue
            d, repo = make_copy()
            try:
                apply(repo, m)
                tests_ok = None
                if do_tests:
                    tests_ok, tail = run_tests(repo)
                t0 = time.time()
                env = {**os.environ, "VERIF_REPO": repo, "VERIF_OUT": os.path.join(d, "out")}
                p = subprocess.run([os.path.join(VERIF, "run"), pid, tier], capture_output=True, text=True, env=env)
                dt = time.time() - t0
                caught = p.returncode == 1 and "VIOLATION property=" in p.stdout
                rows.append((pid, m["name"], tests_ok, p.returncode, caught, dt))
                status = "CAUGHT" if caught else ("HARNESS-ERR" if p.returncode == 2 else "MISSED")
                print(f"{pid} {m['name']:<40} tests={'-' if tests_ok is None else ('pass' if tests_ok else 'FAIL')} exit={p.returncode} {status} {dt:.1f}s", flush=True)
                if not caught:
                    print("   stdout:", p.stdout[-400:].replace("\n", "\n   "))
                    print("   stderr:", p.stderr[-400:].replace("\n", "\n   "))
            finally:
                shutil.rmtree(d, ignore_errors=True)
    missed = [r for r in rows if not r[4]]
    print(f"{len(rows) - len(missed)}/{len(rows)} mutants caught")
    return 1 if missed else 0


if __name__ == "__main__":
    sys.exit(main())
