#!/usr/bin/env python3
"""rewrite the table of kept seeded changes in DESIGN.md (section 10.2) from seeded/*/meta.json"""
import glob, json, os, re

ROOT = os.path.dirname(os.path.dirname(os.path.abspath(__file__)))


def clip(x, n):
    x = " ".join(str(x).replace("|", "/").split())
    return x[:n]


rows = []
for d in sorted(glob.glob(os.path.join(ROOT, "seeded", "*"))):
    m = json.load(open(os.path.join(d, "meta.json")))
    rows.append("| %s | %s | %s |" % (os.path.basename(d), clip(m.get("summary", m.get("description", "")), 170), clip(m.get("what_it_needs_to_manifest", m.get("needs", "")), 200)))
p = os.path.join(ROOT, "DESIGN.md")
lines = open(p).read().split("\n")
start = next(i for i, l in enumerate(lines) if l.startswith("| Seeded change |"))
end = start + 2
while end < len(lines) and lines[end].startswith("|"):
    end += 1
lines[start + 2 : end] = rows
open(p, "w").write("\n".join(lines))
print(len(rows), "rows")
