#!/venv/bin/python
"""Runs the seeded breaking changes in /verif/seeded/<name>/ against the checks.

For every directory with patch.diff + demo.py + meta.json:
  1. scratch copy of /repo (outside /repo and /verif), demo.py must exit 0 on it;
  2. `git apply`-style patch (via `patch -p1`), the repository's tests must still pass, demo.py must exit 1;
  3. `./run <property> <tier>` with VERIF_REPO=<scratch copy> must exit 1 with a VIOLATION line.
usage: tools/seeded.py [name ...] [--tier quick|thorough] [--no-tests] [--src DIR]
"""
import json
import os
import shutil
import subprocess
import sys
import tempfile
import time

HERE = os.path.dirname(os.path.abspath(__file__))
VERIF = os.path.dirname(HERE)
REPO = os.environ.get("VERIF_REPO", "/repo")
ENV = {**os.environ, "TERM": "xterm", "LC_ALL": "C.UTF-8"}


def sh(cmd, cwd, env=None, timeout=1800):
    p = subprocess.run(cmd, cwd=cwd, capture_output=True, text=True, env=env or ENV, timeout=timeout)
    return p.returncode, p.stdout, p.stderr


def main():
    args = [a for a in sys.argv[1:] if not a.startswith("--")]
    tier = "quick"
    src = os.path.join(VERIF, "seeded")
    for a in sys.argv[1:]:
        if a.startswith("--tier="):
            tier = a[7:]
        if a.startswith("--src="):
            src = a[6:]
    do_tests = "--no-tests" not in sys.argv
    names = args or sorted(d for d in os.listdir(src) if os.path.exists(os.path.join(src, d, "patch.diff")))
    missed = 0
    for name in names:
        d = os.path.join(src, name)
        meta = json.load(open(os.path.join(d, "meta.json")))
        prop = meta["property"]
        tmp = tempfile.mkdtemp(prefix="curtsies-seed-")
        repo = os.path.join(tmp, "repo")
        try:
            shutil.copytree(REPO, repo, ignore=shutil.ignore_patterns(".git", "__pycache__", "*.pyc", ".pytest_cache", "_seeded"))
            demo = os.path.join(d, "demo.py")
            rc0, _, _ = sh(["/venv/bin/python", demo], repo)
            rc, out, err = sh(["patch", "-p1", "--no-backup-if-mismatch", "-i", os.path.join(d, "patch.diff")], repo)
            if rc != 0:
                print(f"{name}: PATCH DOES NOT APPLY: {out[-200:]} {err[-200:]}")
                missed += 1
                continue
            tests = "-"
            if do_tests:
                rct, outt, _ = sh(["/venv/bin/python", "-m", "pytest", "-q", "-p", "no:cacheprovider", "tests"], repo, {**ENV, "PYTHONPATH": repo})
                tests = "pass" if rct == 0 else "FAIL"
            rc1, _, _ = sh(["/venv/bin/python", demo], repo)
            t0 = time.time()
            rcc, outc, errc = sh([os.path.join(VERIF, "run"), prop, tier], VERIF, {**ENV, "VERIF_REPO": repo, "VERIF_OUT": os.path.join(tmp, "out")})
            dt = time.time() - t0
            caught = rcc == 1 and "VIOLATION property=" in outc
            if not caught:
                missed += 1
            kinds = sorted({l.split('"kind": "')[1].split('"')[0] for l in outc.splitlines() if '"kind": "' in l})
            print(f"{name:<14} prop={prop} demo(unpatched)={rc0} demo(patched)={rc1} tests={tests} check_exit={rcc} "
                  f"{'CAUGHT' if caught else 'MISSED'} {dt:.1f}s {kinds[:3]}", flush=True)
            if not caught:
                print("    stdout:", outc[-300:].replace("\n", "\n    "))
                print("    stderr:", errc[-300:].replace("\n", "\n    "))
        finally:
            shutil.rmtree(tmp, ignore_errors=True)
    print(f"{len(names) - missed}/{len(names)} seeded changes caught")
    return 1 if missed else 0


if __name__ == "__main__":
    sys.exit(main())
