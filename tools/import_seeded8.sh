#!/bin/bash
id=$1
for x in O P; do
  src=/tmp/wt8-$id/_seeded/$x
  [ -f $src/meta.json ] || { echo "no $src"; continue; }
  mkdir -p /verif/seeded/$id-$x
  cp $src/patch.diff $src/demo.py $src/meta.json /verif/seeded/$id-$x/
done
