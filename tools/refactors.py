#!/usr/bin/env python3
"""Negative controls: behaviour-preserving refactorings of the library (refactors/<name>/patch.diff, check.py, meta.json),
written by fresh sub-agents that saw only one property's text.  For each one, on a scratch copy of /repo:
  * check.py prints the same DIGEST with and without the patch (the author's evidence of equivalence),
  * the repository's tests pass with the patch,
  * the quick tier of the checks (all 20 by default, or those given with --props) exits 0 - an alarm here is either a real
    behaviour change the author overlooked (then the refactoring is not kept as a control) or a false alarm of a check (fixed).

usage: tools/refactors.py [name ...] [--props C01,C02]     (honours VERIF_SEED)
"""
import json
import os
import shutil
import subprocess
import sys
import tempfile
import time

VERIF = os.path.dirname(os.path.dirname(os.path.abspath(__file__)))
REPO = "/repo"
PY = "/venv/bin/python"
ALL = ["C%02d" % i for i in range(1, 21)]
BY_FILE = {
    "curtsies/formatstring.py": ["C01", "C04", "C05", "C06", "C09", "C10", "C11", "C13", "C14", "C15", "C16", "C17", "C19", "C02", "C07"],
    "curtsies/formatstringarray.py": ["C04", "C02", "C07"],
    "curtsies/escseqparse.py": ["C05", "C17", "C01", "C14"],
    "curtsies/events.py": ["C03", "C20", "C08"],
    "curtsies/configfile_keynames.py": ["C20"],
    "curtsies/curtsieskeys.py": ["C03", "C20", "C08"],
    "curtsies/input.py": ["C08", "C12", "C03"],
    "curtsies/termhelpers.py": ["C12", "C08", "C07", "C18"],
    "curtsies/window.py": ["C02", "C07", "C18", "C12"],
    "curtsies/termformatconstants.py": ["C01", "C05", "C14", "C19", "C02", "C07"],
}


def digest(scratch, check, env):
    r = subprocess.run([PY, check], cwd=scratch, env=env, capture_output=True, text=True, timeout=300)
    lines = [l for l in r.stdout.splitlines() if l.startswith("DIGEST")]
    return r.returncode, (lines[-1] if lines else None)


def main():
    args = [a for a in sys.argv[1:] if not a.startswith("--")]
    props_arg = None
    for a in sys.argv[1:]:
        if a.startswith("--props="):
            props_arg = a[8:].split(",")
    root = os.path.join(VERIF, "refactors")
    names = args or sorted(os.listdir(root))
    quiet = 0
    for name in names:
        d = os.path.join(root, name)
        meta = json.load(open(os.path.join(d, "meta.json")))
        scratch = tempfile.mkdtemp(prefix="curtsies-refac-")
        try:
            shutil.copytree(REPO, scratch, dirs_exist_ok=True, ignore=shutil.ignore_patterns(".git", "__pycache__"))
            env = dict(os.environ, TERM="xterm", VERIF_REPO=scratch, VERIF_OUT=os.path.join(scratch, "_verif_out"), PYTHONDONTWRITEBYTECODE="1")
            check = os.path.join(d, "check.py")
            rc0, d0 = digest(scratch, check, env)
            p = subprocess.run(["patch", "-p1", "-s", "-i", os.path.join(d, "patch.diff")], cwd=scratch, capture_output=True, text=True)
            if p.returncode != 0:
                print(f"{name}: PATCH DOES NOT APPLY: {p.stdout[-200:]}")
                continue
            rc1, d1 = digest(scratch, check, env)
            t = subprocess.run([PY, "-m", "pytest", "-q", "-p", "no:cacheprovider", "tests"], cwd=scratch, env=env, capture_output=True, text=True)
            tests_ok = t.returncode == 0
            files = [l[6:].split("\t")[0].strip() for l in open(os.path.join(d, "patch.diff")) if l.startswith("+++ b/")]
            props = props_arg or sorted({p_ for f in files for p_ in BY_FILE.get(f, ALL)})
            t0 = time.time()
            alarms = []
            for pid in props:
                r = subprocess.run([os.path.join(VERIF, "run"), pid, "quick"], cwd=VERIF, env=env, capture_output=True, text=True)
                if r.returncode != 0:
                    tail = [l for l in r.stdout.splitlines() if l.strip()][-3:]
                    alarms.append((pid, r.returncode, " | ".join(x[:160] for x in tail) + " || " + r.stderr[-200:].replace("\n", " ")))
            ok = rc0 == 0 and rc1 == 0 and d0 is not None and d0 == d1 and tests_ok and not alarms
            quiet += ok
            print(f"{name:10s} prop={meta.get('property')} digest_equal={d0 == d1 and d0 is not None} tests={'pass' if tests_ok else 'FAIL'} "
                  f"checks={len(props)} alarms={[(a, b) for a, b, _ in alarms]} {'QUIET' if ok else 'ATTENTION'} {time.time() - t0:.0f}s")
            for a, b, c in alarms:
                print(f"    {a} exit={b}: {c}")
        finally:
            shutil.rmtree(scratch, ignore_errors=True)
    print(f"{quiet}/{len(names)} refactorings: every check quiet")


if __name__ == "__main__":
    main()
