#!/bin/bash
# import_seeded2.sh C08  -> copies /tmp/wt2-C08/_seeded/{C,D} to /verif/seeded/C08-{C,D}
id=$1
for x in C D; do
  src=/tmp/wt2-$id/_seeded/$x
  [ -f $src/patch.diff ] || { echo "no $src"; continue; }
  mkdir -p /verif/seeded/$id-$x
  cp $src/patch.diff $src/demo.py $src/meta.json /verif/seeded/$id-$x/
done
