#!/bin/bash
cd "$(dirname "$0")/.."
./setup.sh >/dev/null 2>&1
for p in "$@"; do
  /usr/bin/time -f "$p elapsed %es maxrss %MKB" timeout 3000 ./run $p thorough 2>&1 | tail -4
done
