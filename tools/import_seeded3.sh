#!/bin/bash
id=$1
for x in E F; do
  src=/tmp/wt3-$id/_seeded/$x
  [ -f $src/patch.diff ] || { echo "no $src"; continue; }
  mkdir -p /verif/seeded/$id-$x
  cp $src/patch.diff $src/demo.py $src/meta.json /verif/seeded/$id-$x/
done
