#!/bin/bash
# import_seeded.sh C08  -> copies /tmp/wt-C08/_seeded/{A,B} to /verif/seeded/C08-{A,B}
id=$1
for x in A B; do
  src=/tmp/wt-$id/_seeded/$x
  [ -f $src/patch.diff ] || { echo "no $src"; continue; }
  mkdir -p /verif/seeded/$id-$x
  cp $src/patch.diff $src/demo.py $src/meta.json /verif/seeded/$id-$x/
done
