#!/bin/bash
id=$1
for x in R1 R2; do
  src=/tmp/wt9-$id/_seeded/$x
  [ -f $src/meta.json ] || { echo "no $src"; continue; }
  mkdir -p /verif/refactors/$id-$x
  cp $src/patch.diff $src/check.py $src/meta.json /verif/refactors/$id-$x/
done
