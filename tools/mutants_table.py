#!/usr/bin/env python3
"""rewrite the mutants table in DESIGN.md (section 10.1) from tools/mutants.json"""
import json, os, re

ROOT = os.path.dirname(os.path.dirname(os.path.abspath(__file__)))
m = json.load(open(os.path.join(ROOT, "tools", "mutants.json")))
rows = ["| %s | %d | %s |" % (p, len(m[p]), ", ".join(x["name"] for x in m[p])) for p in sorted(m)]
total = sum(len(v) for v in m.values())
p = os.path.join(ROOT, "DESIGN.md")
lines = open(p).read().split("\n")
start = next(i for i, l in enumerate(lines) if l.startswith("| Property | # | Mutants"))
end = start + 2
while end < len(lines) and lines[end].startswith("|"):
    end += 1
lines[start + 2 : end] = rows
text = "\n".join(lines)
text = re.sub(r"All\n\d+ mutants below are caught", "All\n%d mutants below are caught" % total, text)
open(p, "w").write(text)
print(total, "mutants")
