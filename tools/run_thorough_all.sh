#!/bin/bash
# runs every thorough check sequentially, prints one summary line each (for `vp run`)
cd "$(dirname "$0")/.."
./setup.sh >/dev/null 2>&1
for p in C01 C02 C03 C04 C05 C06 C07 C08 C09 C10 C11 C12 C13 C14 C15 C16 C17 C18 C19 C20; do
  /usr/bin/time -f "$p elapsed %es maxrss %MKB" ./run $p thorough 2>&1 | tail -4
done
