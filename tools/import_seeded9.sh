#!/bin/bash
id=$1
for x in Q R; do
  src=/tmp/wt9-$id/_seeded/$x
  [ -f $src/meta.json ] || { echo "no $src"; continue; }
  mkdir -p /verif/seeded/$id-$x
  cp $src/patch.diff $src/demo.py $src/meta.json /verif/seeded/$id-$x/
done
