#!/usr/bin/env python3
"""Mechanical mutation sweep over the library source (complements the hand-written mutants and the seeded changes).

For every mutant (one small syntactic change, see OPERATORS) of a function that a property is anchored in:
  1. the repository's own tests are run on a scratch copy; a mutant they kill is of no interest here ("killed_by_tests");
  2. otherwise the quick checks of the properties most relevant to the mutated function are run against the scratch copy, in
     priority order, until one exits 1 ("killed_by <ID>").  exit 2 / timeout are recorded as such.
Survivors are listed with their diff for triage (equivalent mutant, outside every property, or a blind spot).

usage: tools/automutate.py generate            -> writes the mutant list (JSON) to $OUT/mutants.json
       tools/automutate.py run [--shard i/n]   -> runs them, appends one JSON line per mutant to $OUT/results.<i>.jsonl
       tools/automutate.py report              -> summary + survivors
OUT defaults to /tmp/automut (scratch; nothing registered in MANIFEST.json depends on it).
"""
import ast
import copy
import json
import os
import shutil
import subprocess
import sys
import tempfile

VERIF = os.path.dirname(os.path.dirname(os.path.abspath(__file__)))
REPO = os.environ.get("VERIF_REPO", "/repo")
OUT = os.environ.get("AUTOMUT_OUT", "/tmp/automut")
PY = "/venv/bin/python"

FILES = {
    "curtsies/formatstring.py": ["C06", "C09", "C01", "C14"],
    "curtsies/formatstringarray.py": ["C04", "C02", "C07"],
    "curtsies/escseqparse.py": ["C05", "C17"],
    "curtsies/events.py": ["C03", "C20", "C08"],
    "curtsies/configfile_keynames.py": ["C20"],
    "curtsies/input.py": ["C08", "C12", "C03"],
    "curtsies/termhelpers.py": ["C12"],
    "curtsies/window.py": ["C02", "C07", "C18", "C12"],
    "curtsies/termformatconstants.py": ["C01", "C05", "C14", "C19"],
}
# function (or class) name -> properties to try first
BY_FUNC = {
    "linesplit": ["C16"], "width_aware_slice": ["C10", "C11"], "width_aware_splitlines": ["C11"], "_width_aware_splitlines": ["C11"],
    "ChunkSplitter": ["C11", "C10"], "interval_overlap": ["C10", "C11"], "width": ["C10"], "width_at_offset": ["C10"],
    "splice": ["C09", "C04", "C13"], "append": ["C09"], "setslice_with_length": ["C04"], "setitem": ["C13", "C04"],
    "join": ["C06", "C15", "C13"], "__add__": ["C06"], "__radd__": ["C06"], "__mul__": ["C06", "C13"], "__getitem__": ["C06", "C16"],
    "normalize_slice": ["C06", "C10", "C04"], "color_str": ["C01", "C05"], "__str__": ["C01", "C05", "C13"], "from_str": ["C05", "C17"],
    "parse_args": ["C14"], "fmtstr": ["C14", "C17"], "copy_with_new_atts": ["C14", "C13"], "new_with_atts_removed": ["C14"],
    "shared_atts": ["C14", "C15"], "copy_with_new_str": ["C14"], "FrozenAttributes": ["C13", "C14"], "split": ["C15"],
    "splitlines": ["C15"], "ljust": ["C15", "C13"], "rjust": ["C15", "C13"], "__getattr__": ["C15"], "__eq__": ["C19", "C02"],
    "__hash__": ["C19"], "repr_part": ["C19"], "__repr__": ["C19"], "divides": ["C09", "C06"], "s": ["C13", "C06"], "__len__": ["C13", "C06"],
    "Chunk": ["C01", "C19", "C13"], "copy": ["C13"], "get_key": ["C03", "C20"], "_key_name": ["C20", "C03"], "could_be_unfinished_char": ["C03"],
    "could_be_unfinished_utf8": ["C03"], "decodable": ["C03"], "get_cursor_position": ["C18"], "get_cursor_vertical_diff": ["C18"],
    "_get_cursor_vertical_diff_once": ["C18"], "FullscreenWindow": ["C02", "C12"], "CursorAwareWindow": ["C07", "C18", "C12"],
    "BaseWindow": ["C02", "C07", "C12"], "Input": ["C08", "C12"], "ReplacedSigIntHandler": ["C12", "C08"], "Nonblocking": ["C12"], "Cbreak": ["C12"],
    "Termmode": ["C12"], "FSArray": ["C04"], "fsarray": ["C04"], "KeyMap": ["C20"], "token_type": ["C05", "C17"], "peel_off_esc_code": ["C05", "C17"],
    "parse": ["C05", "C17"], "remove_ansi": ["C17"], "xforms": ["C01"],
}
SKIP_FUNCS = {"main", "demo", "test", "pp_event", "try_keys", "dumb_display", "diff", "simple_format", "assertFSArraysEqual",
              "assertFSArraysEqualIgnoringFormatting", "underline", "blink", "array_from_text", "array_from_text_rc", "fmtstr_to_stdout_at",
              "_getitem_normalized", "stable_format_dict", "fileno", "tokenize"}

CMP = {ast.Lt: ast.LtE, ast.LtE: ast.Lt, ast.Gt: ast.GtE, ast.GtE: ast.Gt, ast.Eq: ast.NotEq, ast.NotEq: ast.Eq, ast.Is: ast.IsNot, ast.IsNot: ast.Is,
       ast.In: ast.NotIn, ast.NotIn: ast.In}
BIN = {ast.Add: ast.Sub, ast.Sub: ast.Add, ast.Mult: ast.FloorDiv, ast.FloorDiv: ast.Mult, ast.Mod: ast.Mult}


def scopes_of(tree):
    """-> {node id: (outer class/func names)} for every node"""
    owner = {}

    def walk(node, path):
        for child in ast.iter_child_nodes(node):
            p = path + [child.name] if isinstance(child, (ast.FunctionDef, ast.ClassDef, ast.AsyncFunctionDef)) else path
            owner[id(child)] = p
            walk(child, p)

    walk(tree, [])
    return owner


def is_logging(node):
    return isinstance(node, ast.Expr) and isinstance(node.value, ast.Call) and isinstance(node.value.func, ast.Attribute) and \
        isinstance(node.value.func.value, ast.Name) and node.value.func.value.id in ("logger", "logging")


def is_docstring(node):
    return isinstance(node, ast.Expr) and isinstance(node.value, ast.Constant) and isinstance(node.value.value, str)


def generate_for(path):
    src = open(os.path.join(REPO, path)).read()
    tree = ast.parse(src)
    owner = scopes_of(tree)
    nodes = [n for n in ast.walk(tree)]
    muts = []

    def add(node_index, op, detail):
        n = nodes[node_index]
        scope = owner.get(id(n), [])
        if not scope or any(s in SKIP_FUNCS for s in scope):
            return
        muts.append({"file": path, "node": node_index, "op": op, "detail": detail, "line": getattr(n, "lineno", 0), "scope": scope})

    for i, n in enumerate(nodes):
        if isinstance(n, ast.Compare):
            for k, o in enumerate(n.ops):
                if type(o) in CMP:
                    add(i, "cmp", k)
        elif isinstance(n, ast.BinOp) and type(n.op) in BIN:
            if isinstance(n.op, ast.Mod) and isinstance(n.left, ast.Constant) and isinstance(n.left.value, str):
                continue  # string formatting
            add(i, "bin", 0)
        elif isinstance(n, ast.BoolOp):
            add(i, "bool", 0)
        elif isinstance(n, ast.UnaryOp) and isinstance(n.op, ast.Not):
            add(i, "not", 0)
        elif isinstance(n, (ast.If, ast.While)) and not (isinstance(n.test, ast.Compare) or isinstance(n.test, ast.UnaryOp)):
            add(i, "negate", 0)
        elif isinstance(n, ast.Constant) and isinstance(n.value, bool):
            add(i, "boolconst", 0)
        elif isinstance(n, ast.Constant) and isinstance(n.value, int) and not isinstance(n.value, bool) and -2 <= n.value <= 1024:
            add(i, "int+1", 0)
            if n.value != 0:
                add(i, "int-1", 0)
        elif isinstance(n, (ast.Assign, ast.AugAssign, ast.Expr, ast.Break, ast.Continue, ast.Return, ast.Raise)) and not is_docstring(n) and not is_logging(n):
            if isinstance(n, ast.Return) and n.value is None:
                continue
            if isinstance(n, ast.Expr) and not isinstance(n.value, (ast.Call, ast.Yield, ast.YieldFrom)):
                continue
            add(i, "delete", 0)
    return muts


def apply(m):
    """-> mutated source text (or None if the mutation is not applicable)"""
    path = os.path.join(REPO, m["file"])
    tree = ast.parse(open(path).read())
    nodes = [n for n in ast.walk(tree)]
    n = nodes[m["node"]]
    op = m["op"]
    if op == "cmp":
        n.ops[m["detail"]] = CMP[type(n.ops[m["detail"]])]()
    elif op == "bin":
        n.op = BIN[type(n.op)]()
    elif op == "bool":
        n.op = ast.Or() if isinstance(n.op, ast.And) else ast.And()
    elif op == "not":
        # replace `not x` by x: rewrite in parent
        for p in ast.walk(tree):
            for f, v in ast.iter_fields(p):
                if v is n:
                    setattr(p, f, n.operand)
                elif isinstance(v, list):
                    for k, e in enumerate(v):
                        if e is n:
                            v[k] = n.operand
    elif op == "negate":
        n.test = ast.UnaryOp(op=ast.Not(), operand=n.test)
    elif op == "boolconst":
        n.value = not n.value
    elif op == "int+1":
        n.value = n.value + 1
    elif op == "int-1":
        n.value = n.value - 1
    elif op == "delete":
        for p in ast.walk(tree):
            for f, v in ast.iter_fields(p):
                if isinstance(v, list):
                    for k, e in enumerate(v):
                        if e is n:
                            v[k] = ast.Pass()
    ast.fix_missing_locations(tree)
    try:
        return ast.unparse(tree)
    except Exception:
        return None


def props_for(m):
    order = []
    for s in reversed(m["scope"]):
        for p in BY_FUNC.get(s, []):
            if p not in order:
                order.append(p)
    for p in FILES[m["file"]]:
        if p not in order:
            order.append(p)
    return order[:4]


def cmd_generate():
    os.makedirs(OUT, exist_ok=True)
    allm = []
    for path in FILES:
        allm += generate_for(path)
    # normal form check: the unmutated unparse must be importable/equal semantics - keep only mutants whose text differs
    json.dump(allm, open(os.path.join(OUT, "mutants.json"), "w"))
    from collections import Counter
    print(len(allm), "mutants", dict(Counter(m["file"] for m in allm)), dict(Counter(m["op"] for m in allm)))


def run_one(m, scratch, env):
    text = apply(m)
    target = os.path.join(scratch, m["file"])
    orig = open(os.path.join(REPO, m["file"])).read()
    if text is None:
        return {"status": "inapplicable"}
    try:
        compile(text, target, "exec")
    except SyntaxError:
        return {"status": "inapplicable"}
    open(target, "w").write(text)
    try:
        r = subprocess.run([PY, "-c", "import curtsies, curtsies.window, curtsies.input"], cwd=scratch, env=env, capture_output=True, timeout=60)
        if r.returncode != 0:
            return {"status": "import_fails"}
        try:
            r = subprocess.run([PY, "-m", "pytest", "-x", "-q", "-p", "no:cacheprovider", "tests"], cwd=scratch, env=env, capture_output=True, timeout=300)
            if r.returncode != 0:
                return {"status": "killed_by_tests"}
        except subprocess.TimeoutExpired:
            return {"status": "killed_by_tests", "note": "timeout"}
        tried = []
        for p in props_for(m):
            try:
                r = subprocess.run([os.path.join(VERIF, "run"), p, "quick"], cwd=VERIF, env=env, capture_output=True, text=True, timeout=600)
                rc = r.returncode
            except subprocess.TimeoutExpired:
                rc = "timeout"
            tried.append([p, rc])
            if rc == 1:
                return {"status": "killed", "by": p, "tried": tried}
        if any(rc in (2, "timeout") for _, rc in tried):
            return {"status": "harness_error_or_timeout", "tried": tried}
        return {"status": "survived", "tried": tried}
    finally:
        open(target, "w").write(orig)


def cmd_run(shard, nshards):
    muts = json.load(open(os.path.join(OUT, "mutants.json")))
    done = set()
    resf = os.path.join(OUT, f"results.{shard}.jsonl")
    if os.path.exists(resf):
        for l in open(resf):
            done.add(json.loads(l)["index"])
    scratch = tempfile.mkdtemp(prefix="curtsies-automut-")
    try:
        shutil.copytree(REPO, scratch, dirs_exist_ok=True, ignore=shutil.ignore_patterns(".git", "__pycache__", "*.pyc"))
        out_dir = os.path.join(scratch, "_verif_out")
        env = dict(os.environ, VERIF_REPO=scratch, VERIF_OUT=out_dir, TERM="xterm", VERIF_MAX_PROCS=os.environ.get("AUTOMUT_PROCS", "4"),
                   VERIF_WATCHDOG_S="500", PYTHONDONTWRITEBYTECODE="1")
        # the unmutated, unparsed file must behave like the original: sanity (comments/formatting only)
        with open(resf, "a") as f:
            for idx, m in enumerate(muts):
                if idx % nshards != shard or idx in done:
                    continue
                res = run_one(m, scratch, env)
                res.update(index=idx, file=m["file"], line=m["line"], op=m["op"], scope=m["scope"])
                f.write(json.dumps(res) + "\n")
                f.flush()
                shutil.rmtree(out_dir, ignore_errors=True)
    finally:
        shutil.rmtree(scratch, ignore_errors=True)


FULL = {
    # (second phase for formatstring.py: the checks most likely to notice what the function-specific ones of phase 1 did not)
    "curtsies/formatstring.py": ["C13", "C04", "C15", "C19", "C10", "C14"],
    "curtsies/formatstringarray.py": ["C04", "C02", "C07"],
    "curtsies/escseqparse.py": ["C05", "C17", "C01", "C14"],
    "curtsies/events.py": ["C03", "C20", "C08"],
    "curtsies/configfile_keynames.py": ["C20"],
    "curtsies/input.py": ["C08", "C12", "C03"],
    "curtsies/termhelpers.py": ["C12", "C08", "C07", "C18"],
    "curtsies/window.py": ["C02", "C07", "C18", "C12"],
    "curtsies/termformatconstants.py": ["C01", "C05", "C14", "C19", "C02", "C07"],
}


def cmd_phase2(shard, nshards):
    """survivors of the first phase (at most four checks each) against every remaining check that touches the file"""
    import glob

    muts = json.load(open(os.path.join(OUT, "mutants.json")))
    res = {}
    for fn in glob.glob(os.path.join(OUT, "results.*.jsonl")):
        for l in open(fn):
            d = json.loads(l)
            res[d["index"]] = d
    resf = os.path.join(OUT, f"phase2.{shard}.jsonl")
    done = set()
    if os.path.exists(resf):
        for l in open(resf):
            done.add(json.loads(l)["index"])
    skip = os.environ.get("AUTOMUT_SKIP_FILE", "")
    todo = [i for i, r in sorted(res.items()) if r["status"] in ("survived", "harness_error_or_timeout") and i not in done and muts[i]["file"] != skip]
    scratch = tempfile.mkdtemp(prefix="curtsies-automut2-")
    try:
        shutil.copytree(REPO, scratch, dirs_exist_ok=True, ignore=shutil.ignore_patterns(".git", "__pycache__", "*.pyc"))
        out_dir = os.path.join(scratch, "_verif_out")
        env = dict(os.environ, VERIF_REPO=scratch, VERIF_OUT=out_dir, TERM="xterm", VERIF_MAX_PROCS=os.environ.get("AUTOMUT_PROCS", "4"),
                   VERIF_WATCHDOG_S="500", PYTHONDONTWRITEBYTECODE="1")
        with open(resf, "a") as f:
            for k, idx in enumerate(todo):
                if k % nshards != shard:
                    continue
                m = muts[idx]
                tried = [p for p, _ in res[idx].get("tried", [])]
                rest = [p for p in FULL[m["file"]] if p not in tried]
                text = apply(m)
                target = os.path.join(scratch, m["file"])
                orig = open(os.path.join(REPO, m["file"])).read()
                open(target, "w").write(text)
                out = {"index": idx, "status": "survived_all", "tried2": []}
                try:
                    for p in rest:
                        try:
                            r = subprocess.run([os.path.join(VERIF, "run"), p, "quick"], cwd=VERIF, env=env, capture_output=True, text=True, timeout=600)
                            rc = r.returncode
                        except subprocess.TimeoutExpired:
                            rc = "timeout"
                        out["tried2"].append([p, rc])
                        if rc == 1:
                            out["status"] = "killed"
                            out["by"] = p
                            break
                finally:
                    open(target, "w").write(orig)
                    shutil.rmtree(out_dir, ignore_errors=True)
                f.write(json.dumps(out) + "\n")
                f.flush()
    finally:
        shutil.rmtree(scratch, ignore_errors=True)


def cmd_report():
    import glob
    from collections import Counter

    muts = json.load(open(os.path.join(OUT, "mutants.json")))
    res = {}
    for fn in glob.glob(os.path.join(OUT, "results.*.jsonl")):
        for l in open(fn):
            d = json.loads(l)
            res[d["index"]] = d
    c = Counter(r["status"] for r in res.values())
    print(len(res), "of", len(muts), "run:", dict(c))
    judged = c["killed"] + c["survived"] + c["harness_error_or_timeout"]
    if judged:
        print("of the %d mutants the repository's tests let through: killed %d (%.1f%%), harness error/timeout %d, survived %d" % (
            judged, c["killed"], 100.0 * c["killed"] / judged, c["harness_error_or_timeout"], c["survived"]))
    print(dict(Counter(r.get("by") for r in res.values() if r["status"] == "killed")))
    for idx, r in sorted(res.items()):
        if r["status"] in ("survived", "harness_error_or_timeout"):
            print(r["status"], idx, r["file"], r["line"], r["op"], ".".join(r["scope"]), r.get("tried"))


if __name__ == "__main__":
    a = sys.argv[1:]
    if a[0] == "generate":
        cmd_generate()
    elif a[0] == "run":
        sh, n = 0, 1
        if "--shard" in a:
            sh, n = map(int, a[a.index("--shard") + 1].split("/"))
        cmd_run(sh, n)
    elif a[0] == "phase2":
        sh, n = 0, 1
        if "--shard" in a:
            sh, n = map(int, a[a.index("--shard") + 1].split("/"))
        cmd_phase2(sh, n)
    elif a[0] == "report":
        cmd_report()
    elif a[0] == "show":
        muts = json.load(open(os.path.join(OUT, "mutants.json")))
        m = muts[int(a[1])]
        import difflib
        base = ast.unparse(ast.parse(open(os.path.join(REPO, m["file"])).read()))
        print("".join(difflib.unified_diff(base.splitlines(True), apply(m).splitlines(True), n=2)))
