#!/usr/bin/env python3
"""Regenerates MANIFEST.json from the table below (one entry per claimed property)."""
import json
import os

HERE = os.path.dirname(os.path.abspath(__file__))
VERIF = os.path.dirname(HERE)

CHECKS = {
    "C01": dict(
        technique="exhaustive enumeration of attribute sets + Hypothesis property test against an independent SGR interpreter",
        text="Exploration: all 59049 attribute dicts (9 fg x 9 bg x 3^6 style states) in neighbour contexts are enumerated completely and every generated FmtStr is judged by an independently written SGR interpreter (display cells equal, final state default, nothing but SGR). Complete for single-run attribute sets, sampled for run layouts/texts.",
        note="Trusts vf/sgr.py as the ANSI terminal (ECMA-48/xterm SGR semantics for the supported parameters) and cell equality (bold=False == absent) as 'same formatting'.",
        ref="4/C01",
    ),
}

PENDING_REASON = "check not built yet in this session (work in progress; see DESIGN.md section 4 for the planned generator and oracle)"


def main():
    props = [json.loads(l)["id"] for l in open(os.path.join(VERIF, "properties.jsonl"))]
    checks = []
    for pid in props:
        if pid not in CHECKS:
            continue
        c = CHECKS[pid]
        checks.append(
            {
                "property_id": pid,
                "quick_cmd": f"./run {pid} quick",
                "thorough_cmd": f"./run {pid} thorough",
                "evidence_file": f"/verif/evidence/{pid}.json",
                "replay_cmd_template": f"./run {pid} quick --replay {{path}}",
                "engine": "vf",
                "level_claimed": {"category": "exploration", "text": c["text"], "design_ref": c["ref"]},
                "level_note": c["note"],
                "technique": c["technique"],
            }
        )
    manifest = {
        "version": 1,
        "setup_cmd": "./setup.sh",
        "hooks": {
            "guard": "CURTSIES_VERIF",
            "enable": "no source hooks exist: all instrumentation is module-attribute substitution from the harness (curtsies.input.time/select/getpreferredencoding, sys.settrace, ptys); ./run exports CURTSIES_VERIF=1 for form only",
            "baseline_off_cmd": "cd /repo && /venv/bin/python -m pytest -ra -q -p no:cacheprovider --timeout=900 --continue-on-collection-errors tests",
            "source_commits": [],
            "add_only": True,
        },
        "engines": [
            {
                "name": "vf",
                "path": "/verif/vf",
                "serves_properties": [c["property_id"] for c in checks],
                "kind_free_text": "property-based testing: Hypothesis strategies + complete enumeration of small finite domains + atheris fuzz targets, each against an explicit independent oracle (SGR interpreter, reference terminal, cell model, key tokeniser, queue model); JSON cases, replayable without Hypothesis",
            }
        ],
        "checks": checks,
        "not_applicable": [{"property_id": p, "reason": PENDING_REASON} for p in props if p not in CHECKS],
        "notes": "All checks: ./run <ID> <quick|thorough> [--replay file]; exit 0 held / 1 VIOLATION / 2 harness error. KNOWN_FINDINGS.txt lists recorded findings and fixed defects.",
    }
    if not manifest["not_applicable"]:
        del manifest["not_applicable"]
    with open(os.path.join(VERIF, "MANIFEST.json"), "w") as f:
        json.dump(manifest, f, indent=1)
        f.write("\n")


if __name__ == "__main__":
    main()
