#!/usr/bin/env python3
"""Regenerates MANIFEST.json from the table below (one entry per claimed property)."""
import json
import os

HERE = os.path.dirname(os.path.abspath(__file__))
VERIF = os.path.dirname(HERE)

CHECKS = {
    "C01": dict(
        technique="exhaustive enumeration of attribute sets + Hypothesis property test against an independent SGR interpreter",
        text="Exploration: all 59049 attribute dicts (9 fg x 9 bg x 3^6 style states) in neighbour contexts are enumerated completely and every generated FmtStr is judged by an independently written SGR interpreter (display cells equal, final state default, nothing but SGR). Complete for single-run attribute sets, sampled for run layouts/texts.",
        note="Trusts vf/sgr.py as the ANSI terminal (ECMA-48/xterm SGR semantics for the supported parameters) and cell equality (bold=False == absent) as 'same formatting'.",
        ref="4/C01",
    ),
    "C02": dict(
        technique="Hypothesis model-based history test of the real window against a reference terminal emulator (xterm semantics)",
        text="Exploration over generated render/resize histories on terminals 1..6 x 1..8: after every render every screen cell of the reference terminal must equal the array (or blank), the cursor must sit at cursor_pos and nothing may have scrolled.",
        note="Trusts vf/refterm.py (pending wrap, BCE, alt screen, DECSC/DECRC) as the terminal; size delivered through TIOCSWINSZ on a pty; unknown escape sequences are harness errors.",
        ref="4/C02",
    ),
    "C04": dict(
        technique="Hypothesis model-based history test (assign/read sequences) against a cell-grid reference model",
        text="Exploration over generated histories of region assignments and reads on small arrays (h<=5, w<=7, zero sizes, constructor formatting, FSArray and list blocks, fitting/short/long/empty rows, wrong row counts, growth) compared with a grid model after every step; error cases must raise and change no cell.",
        note="Neutral zones where the statement is silent (row longer than the region reaching only blank cells, empty regions) are resynchronised, not judged.",
        ref="4/C04",
    ),
    "C07": dict(
        technique="Hypothesis model-based history test of the real window against a reference terminal with scrollback (tape oracle)",
        text="Exploration over generated initial screens (0..h+4 history lines, cursor on any row, optional junk below), render sequences (heights 0..h+4) and context exit on terminals 2..6 x 3..8; the tape (scrollback+screen) is checked after every render for untouched history, array placement, blank remainder, exact scroll count, return value and cursor cell.",
        note="Trusts vf/refterm.py; DSR answered from the model's cursor; caller drops rows reported as pushed off-screen.",
        ref="4/C07",
    ),
    "C18": dict(
        technique="Hypothesis property test with scripted input stream and fault injection (OSError), plus model-based histories for movement accounting",
        text="Exploration: generated reports (1..10^6, 7/8-bit CSI), preceding look-alike input, trailing input, injected read errors, callback present/absent, two encodings; movement histories with renders, cursor movements, queries and nested queries injected at generated read positions, judged by a conservation law.",
        note="A complete report inside the extra input is excluded (indistinguishable); movement/queries before the first render are outside the statement.",
        ref="4/C18",
    ),
    "C08": dict(
        technique="Hypothesis model-based history test on a harness-owned schedule (virtual clock, fake select, settrace line injection) against a queue model with validity oracles",
        text="Exploration over generated interleavings of byte arrivals (up to multi-kilobyte bursts whose 1024-byte read offsets fall inside characters), external reads + unget_bytes, plain/threadsafe/scheduled trigger calls (equal times), SIGINT, clock advances and requests (timeouts 0/0.01/0.5/None) with actions happening inside the blocking select or at the k-th executed line; every result is judged valid/invalid by a queue model, every history is drained and must have delivered everything exactly once.",
        note="time/select/getpreferredencoding/os.read of curtsies.input are substituted from outside; callbacks fired on the same thread at generated points stand for other threads (argued in DESIGN.md 7); no real pre-emptive interleavings.",
        ref="4/C08",
    ),
    "C12": dict(
        technique="Hypothesis fault-injection test (exception after every body prefix, SIGINT at generated line numbers) with before/after state equality on a real pty, signal state and a reference terminal",
        text="Exploration over stacks of 1-2 contexts x options x generated initial tty attributes / file status flags / SIGINT handler / wake-up fd x bodies of 0-6 operations x exit modes (normal, raise after k-th operation, SIGINT at the k-th executed line of a request) on main and worker threads, repeated up to 25x for descriptor counting.",
        note="tty state is real (pty, termios, fcntl, signal module); terminal content via vf/refterm.py; threadsafe-trigger pipes are owned by their callbacks and closed by the harness before counting.",
        ref="4/C12",
    ),
    "C03": dict(
        technique="exhaustive decision-tree enumeration (multiprocessing) + cross-product enumeration + Hypothesis byte-stream generation against an independent tokeniser model",
        text="Exploration, exhaustive on the decoder's ESC-rooted decision tree (every node x every next byte x full in {F,T} x 3 encodings x 3 naming modes), on the valid-UTF-8 prefix tree (quick: <=2-byte prefixes; thorough: all 17.6k prefixes x 256), on table-sequence x next-byte, and (thorough) table x table pairs and all 1,112,064 Unicode scalars; sampled off the valid UTF-8 paths (2^40 leaves) and for multi-read streams.",
        note="The two name tables are the specification (read as data); UTF-8 validity per RFC 3629 automaton in vf/keymodel.py; one known finding (esc-prefix-then-highbyte) is excluded by a narrow matcher and counted.",
        ref="4/C03",
    ),
    "C20": dict(
        technique="exhaustive lock-step enumeration of the decision tree under the three naming modes + exhaustive config-name enumeration against the decoder-derived set of producible names",
        text="Exploration, exhaustive on the ESC subtree and (thorough) the valid UTF-8 prefix tree in lock-step over the three modes, on both tables, and on all 128 valid configuration names plus an invalid catalogue; Hypothesis walks for other byte strings.",
        note="The set P of producible names is computed by driving the real decoder over every table sequence and every single byte; lower-case C-<letter> only.",
        ref="4/C20",
    ),
    "C05": dict(
        technique="Hypothesis round-trip and grammar-based differential test against an independent SGR interpreter, plus enumeration of attribute sets",
        text="Exploration: round trip from_str(str(f)) over enumerated attribute sets and generated FmtStr values (texts with newlines/controls), and grammar strings (text | ESC[p;..m)* judged per character by an independent SGR interpreter. Sampled, not exhaustive, beyond the single-run attribute space.",
        note="Trusts vf/sgr.py as the ANSI terminal for the supported SGR parameters; equality is cell equality.",
        ref="4/C05",
    ),
    "C06": dict(
        technique="Hypothesis property test with per-case complete enumeration of slice bounds against a cell-list reference model",
        text="Exploration: for every generated FmtStr all (start, stop) pairs and indices in [-len-2, len+2] U {None} are enumerated and compared with Python list semantics on the cell lists; +, *, join likewise.",
        note="Reference model = Python list slicing/concatenation on per-character cells; IndexError type for out-of-range ints is not asserted.",
        ref="4/C06",
    ),
    "C09": dict(
        technique="Hypothesis property test with per-case complete enumeration of (start, end) against a list-splice reference model",
        text="Exploration: for every generated (f, new) pair all 0<=start<=end<=len+2 and end omitted are enumerated; oracle is list splicing on cell lists; f must stay unchanged.",
        note="Reference model = cells(f)[:s] + cells(new) + cells(f)[e:].",
        ref="4/C09",
    ),
    "C10": dict(
        technique="complete enumeration of short strings x run layouts x column ranges + Hypothesis, against an independent column model",
        text="Exploration, exhaustive on strings up to length 4 (quick) / 6 (thorough) over a 5-symbol alphabet (narrow, 2 wide, 2 combining) in all 1-3 run layouts with all column ranges and offsets; Hypothesis for longer ones.",
        note="Widths from the wcwidth package on an alphabet where it agrees with cwcwidth; zero-width marks on slice edges are not asserted.",
        ref="4/C10",
    ),
    "C11": dict(
        technique="complete enumeration of short strings x run layouts x column limits + Hypothesis, validity predicate and greedy reference wrap",
        text="Exploration, exhaustive on strings up to length 5 (quick) / 6 (thorough) over the C10 alphabet in all 1-3 run layouts for columns 2..6; oracle is a validity predicate (widths, fullness, conservation modulo legitimate padding) plus a greedy reference partition.",
        note="Widths as in C10; placement of zero-width characters across a line break is free; no-run FmtStr outside the quantifier.",
        ref="4/C11",
    ),
    "C13": dict(
        technique="Hypothesis model-based history test (straight-line programs over a value pool) with snapshot invariants",
        text="Exploration over generated programs (3-30 operations from the whole public operation set, observations and mutation attempts interleaved); after every step every pool value must equal its entry snapshot and a fresh rebuild.",
        note="Snapshots are taken on fresh rebuilds from public .chunks data; operations that raise are skipped (not this property's concern).",
        ref="4/C13",
    ),
    "C14": dict(
        technique="Hypothesis metamorphic test (equivalent spellings) + enumeration of attribute sets and an invalid-specification catalogue against an overwrite model",
        text="Exploration: 1-3 layers of generated specifications in generated spellings vs a per-character overwrite model and vs a reference spelling; all 5184 truthy attribute sets x spellings; the complete fmtfuncs table; 35 invalid specifications must raise ValueError.",
        note="Wrong-case names may either work or raise ValueError; copy_with_new_str judged only when all runs carry the same formatting.",
        ref="4/C14",
    ),
    "C15": dict(
        technique="Hypothesis differential test of a curated method table against str, with range-exact formatting oracle for split pieces",
        text="Exploration: ~110 method/argument rows per generated FmtStr compared with the str method on .s (text, non-text answer or exception type); pieces of split/splitlines must have exactly the cells of their source range; other text results bounded by shared/union attribute items.",
        note="split() without separator and empty separator excluded; ljust/rjust padding without fillchar only checked for 'nothing invented' (pinned by the repo's own test).",
        ref="4/C15",
    ),
    "C16": dict(
        technique="complete enumeration of short strings x layouts x widths + Hypothesis against a greedy reference wrap on cells",
        text="Exploration, exhaustive on strings up to length 5 (quick) / 6 (thorough) over 6 symbols (2 letters, 4 whitespace kinds) as str / 1-run / all 2-run layouts for 4 widths; Hypothesis for longer texts and more whitespace kinds.",
        note="Whitespace = str.isspace (checked equal to re \\s on all code points); [] and [''] both accepted for wordless text.",
        ref="4/C16",
    ),
    "C17": dict(
        technique="complete enumeration of short strings over an escape alphabet + Hypothesis grammar, subsequence/shadow oracle",
        text="Exploration, exhaustive on all strings up to length 4 (quick) / 5 (thorough) over a 15-symbol escape alphabet; grammar-generated mixes of text, well-formed numeric CSI, truncated and nested sequences; real-world samples.",
        note="'part of an escape sequence' judged by a conservative scanner (vf/sgr.py:shadow); numeric CSI = ESC[ d+(;d+)* final.",
        ref="4/C17",
    ),
    "C19": dict(
        technique="Hypothesis near-miss pair generation with coherence oracle; repr checked by AST whitelist and eval round trip",
        text="Exploration over generated near-miss pairs (same text/different formatting, same display/different runs, empty runs, False attributes, plain str operands) for ==, !=, hash, set and dict behaviour; repr over all attribute sets and generated texts is evaluated in a namespace of only the fmtfuncs names.",
        note="'same terminal string' uses the library's str(); C01 establishes what str() displays.",
        ref="4/C19",
    ),
}

PENDING_REASON = "check not built yet in this session (work in progress; see DESIGN.md section 4 for the planned generator and oracle)"


def main():
    props = [json.loads(l)["id"] for l in open(os.path.join(VERIF, "properties.jsonl"))]
    checks = []
    for pid in props:
        if pid not in CHECKS:
            continue
        c = CHECKS[pid]
        checks.append(
            {
                "property_id": pid,
                "quick_cmd": f"./run {pid} quick",
                "thorough_cmd": f"./run {pid} thorough",
                "evidence_file": f"/verif/evidence/{pid}.json",
                "replay_cmd_template": f"./run {pid} quick --replay {{path}}",
                "engine": "vf",
                "level_claimed": {"category": "exploration", "text": c["text"], "design_ref": c["ref"]},
                "level_note": c["note"],
                "technique": c["technique"],
            }
        )
    manifest = {
        "version": 1,
        "setup_cmd": "./setup.sh",
        "hooks": {
            "guard": "CURTSIES_VERIF",
            "enable": "no source hooks exist: all instrumentation is module-attribute substitution from the harness (curtsies.input.time/select/getpreferredencoding, sys.settrace, ptys); ./run exports CURTSIES_VERIF=1 for form only",
            "baseline_off_cmd": "cd /repo && /venv/bin/python -m pytest -ra -q -p no:cacheprovider --timeout=900 --continue-on-collection-errors tests",
            "source_commits": [],
            "add_only": True,
        },
        "engines": [
            {
                "name": "vf",
                "path": "/verif/vf",
                "serves_properties": [c["property_id"] for c in checks],
                "kind_free_text": "property-based testing: Hypothesis strategies + complete enumeration of small finite domains + atheris fuzz targets, each against an explicit independent oracle (SGR interpreter, reference terminal, cell model, key tokeniser, queue model); JSON cases, replayable without Hypothesis",
            }
        ],
        "checks": checks,
        "not_applicable": [{"property_id": p, "reason": PENDING_REASON} for p in props if p not in CHECKS],
        "notes": "All checks: ./run <ID> <quick|thorough> [--replay file]; exit 0 held / 1 VIOLATION / 2 harness error. KNOWN_FINDINGS.txt lists recorded findings and fixed defects.",
    }
    if not manifest["not_applicable"]:
        del manifest["not_applicable"]
    with open(os.path.join(VERIF, "MANIFEST.json"), "w") as f:
        json.dump(manifest, f, indent=1)
        f.write("\n")


if __name__ == "__main__":
    main()
