#!/bin/bash
# quick tier of every check at the given seeds; prints only non-OK results and a summary
cd "$(dirname "$0")/.."
seeds="${@:-1}"
bad=0
for s in $seeds; do
  for p in C01 C02 C03 C04 C05 C06 C07 C08 C09 C10 C11 C12 C13 C14 C15 C16 C17 C18 C19 C20; do
    out=$(VERIF_SEED=$s VERIF_OUT=/tmp/quickall-out ./run $p quick 2>&1); rc=$?
    if [ $rc -ne 0 ]; then bad=$((bad+1)); echo "seed=$s $p exit=$rc"; echo "$out" | tail -5; fi
  done
  echo "seed $s done"
done
rm -rf /tmp/quickall-out
echo "non-zero exits: $bad"
