"""Normal form of FmtStr / str / FSArray rows as per-character cells.

A cell is (char, fg, bg, styles) with fg in {None,30..37}, bg in {None,40..47} and styles a
sorted tuple of those of the six style names whose value is truthy.  `bold=False` and absent
`bold` are the same formatting.  Cells are read from the public .chunks/.s/.atts only.

A *description* is the JSON form of a FmtStr: [[text, {att: value, ...}], ...].
"""
from __future__ import annotations

STYLES = ("bold", "dark", "italic", "underline", "blink", "invert")
STYLE_SET = frozenset(STYLES)
FG = {"black": 30, "red": 31, "green": 32, "yellow": 33, "blue": 34, "magenta": 35, "cyan": 36, "gray": 37}
BG = {k: v + 10 for k, v in FG.items()}
FG_NAME = {v: k for k, v in FG.items()}
BG_NAME = {v: k for k, v in BG.items()}
BLANK = (" ", None, None, ())


def fmt_of_atts(atts):
    """(fg, bg, styles) of an attribute mapping"""
    fg = atts.get("fg") or None
    bg = atts.get("bg") or None
    styles = tuple(s for s in STYLES if atts.get(s))
    return fg, bg, styles


def cells_of_desc(desc):
    out = []
    for text, atts in desc:
        fmt = fmt_of_atts(atts)
        for ch in text:
            out.append((ch,) + fmt)
    return out


def cells_of_str(s):
    return [(ch, None, None, ()) for ch in s]


def cells(x):
    """cells of a FmtStr (via public attributes) or of a plain str"""
    if isinstance(x, str):
        return cells_of_str(x)
    out = []
    for chunk in x.chunks:
        fmt = fmt_of_atts(chunk.atts)
        for ch in chunk.s:
            out.append((ch,) + fmt)
    return out


def text_of(cs):
    return "".join(c[0] for c in cs)


def desc_of(x):
    """description of an existing FmtStr (used to rebuild fresh copies)"""
    return [[c.s, dict(c.atts)] for c in x.chunks]


def show(cs, limit=40):
    """compact printable form for violation reports"""
    out = []
    for ch, fg, bg, st in cs[:limit]:
        out.append([ch, fg, bg, list(st)])
    return out


# ---------------------------------------------------------------------------------------
# building real FmtStr values from descriptions, through different public routes


def build(desc, mode="fmtstr"):
    from curtsies.formatstring import FmtStr, Chunk, fmtstr
    from curtsies import fmtfuncs

    if mode == "chunks":
        return FmtStr(*[Chunk(t, dict(a)) for t, a in desc])
    parts = []
    for t, a in desc:
        if mode == "funcs":
            f = fmtstr(t)
            falses = {k: v for k, v in a.items() if k in STYLE_SET and not v}
            if falses:
                f = fmtstr(f, **falses)
            for k in sorted(a):
                v = a[k]
                if k == "fg":
                    f = getattr(fmtfuncs, FG_NAME[v])(f)
                elif k == "bg":
                    f = getattr(fmtfuncs, "on_" + BG_NAME[v])(f)
                elif v:
                    f = getattr(fmtfuncs, k)(f)
            parts.append(f)
        elif mode == "names":
            args = []
            kw = {}
            for k, v in a.items():
                if k == "fg":
                    args.append(FG_NAME[v])
                elif k == "bg":
                    args.append("on_" + BG_NAME[v])
                elif v:
                    args.append(k)
                else:
                    kw[k] = v
            parts.append(fmtstr(t, *args, **kw))
        else:  # "fmtstr": keyword spelling
            parts.append(fmtstr(t, **dict(a)))
    out = FmtStr()
    for p in parts:
        out = out + p
    return out


def build_plainmix(desc):
    """like build(), but runs without attributes are added as plain str operands"""
    from curtsies.formatstring import FmtStr, fmtstr

    out = None
    for t, a in desc:
        piece = t if not a else fmtstr(t, **dict(a))
        if out is None:
            out = piece if not isinstance(piece, str) else FmtStr() + piece
        else:
            out = out + piece
    return out if out is not None else FmtStr()
