"""Normal form of FmtStr / str / FSArray rows as per-character cells.

A cell is (char, fg, bg, styles) with fg in {None,30..37}, bg in {None,40..47} and styles a
sorted tuple of those of the six style names whose value is truthy.  `bold=False` and absent
`bold` are the same formatting.  Cells are read from the public .chunks/.s/.atts only.

A *description* is the JSON form of a FmtStr: [[text, {att: value, ...}], ...].
"""
from __future__ import annotations

STYLES = ("bold", "dark", "italic", "underline", "blink", "invert")
STYLE_SET = frozenset(STYLES)
FG = {"black": 30, "red": 31, "green": 32, "yellow": 33, "blue": 34, "magenta": 35, "cyan": 36, "gray": 37}
BG = {k: v + 10 for k, v in FG.items()}
FG_NAME = {v: k for k, v in FG.items()}
BG_NAME = {v: k for k, v in BG.items()}
BLANK = (" ", None, None, ())


def fmt_of_atts(atts):
    """(fg, bg, styles) of an attribute mapping"""
    fg = atts.get("fg") or None
    bg = atts.get("bg") or None
    styles = tuple(s for s in STYLES if atts.get(s))
    return fg, bg, styles


def cells_of_desc(desc):
    out = []
    for text, atts in desc:
        fmt = fmt_of_atts(atts)
        for ch in text:
            out.append((ch,) + fmt)
    return out


def cells_of_str(s):
    return [(ch, None, None, ()) for ch in s]


def cells(x):
    """cells of a FmtStr (via public attributes) or of a plain str"""
    if isinstance(x, str):
        return cells_of_str(x)
    out = []
    for chunk in x.chunks:
        fmt = fmt_of_atts(chunk.atts)
        for ch in chunk.s:
            out.append((ch,) + fmt)
    return out


def text_of(cs):
    return "".join(c[0] for c in cs)


def desc_of(x):
    """description of an existing FmtStr (used to rebuild fresh copies)"""
    return [[c.s, dict(c.atts)] for c in x.chunks]


def show(cs, limit=40):
    """compact printable form for violation reports"""
    out = []
    for ch, fg, bg, st in cs[:limit]:
        out.append([ch, fg, bg, list(st)])
    return out


# ---------------------------------------------------------------------------------------
# building real FmtStr values from descriptions, through different public routes


def build(desc, mode="fmtstr"):
    from curtsies.formatstring import FmtStr, Chunk, fmtstr
    from curtsies import fmtfuncs

    if mode == "chunks":
        return FmtStr(*[Chunk(t, dict(a)) for t, a in desc])
    parts = []
    for t, a in desc:
        if mode == "funcs":
            f = fmtstr(t)
            falses = {k: v for k, v in a.items() if k in STYLE_SET and not v}
            if falses:
                f = fmtstr(f, **falses)
            for k in sorted(a):
                v = a[k]
                if k == "fg":
                    f = getattr(fmtfuncs, FG_NAME[v])(f)
                elif k == "bg":
                    f = getattr(fmtfuncs, "on_" + BG_NAME[v])(f)
                elif v:
                    f = getattr(fmtfuncs, k)(f)
            parts.append(f)
        elif mode == "funcs_extra":
            # one fmtfuncs call per run: the first attribute names the function, the others ride along as extra positional
            # names and keyword arguments ( red('ab', 'bold', bg='blue') )
            items = [(k, a[k]) for k in sorted(a) if a[k]]
            kw = {k: v for k, v in a.items() if k in STYLE_SET and not v}
            extra = []
            for i, (k, v) in enumerate(items[1:]):
                name = FG_NAME[v] if k == "fg" else "on_" + BG_NAME[v] if k == "bg" else k
                if i % 2 == 0:
                    extra.append(name)
                elif k == "fg":
                    kw["fg"] = FG_NAME[v] if len(t) % 2 else v
                elif k == "bg":
                    kw["bg"] = BG_NAME[v] if len(t) % 2 else v
                else:
                    kw[k] = True
            if items:
                k, v = items[0]
                fn = getattr(fmtfuncs, FG_NAME[v] if k == "fg" else "on_" + BG_NAME[v] if k == "bg" else k)
            else:
                fn = fmtfuncs.plain
            parts.append(fn(t, *extra, **kw))
        elif mode == "names":
            args = []
            kw = {}
            for k, v in a.items():
                if k == "fg":
                    args.append(FG_NAME[v])
                elif k == "bg":
                    args.append("on_" + BG_NAME[v])
                elif v:
                    args.append(k)
                else:
                    kw[k] = v
            parts.append(fmtstr(t, *args, **kw))
        else:  # "fmtstr": keyword spelling
            parts.append(fmtstr(t, **dict(a)))
    out = FmtStr()
    for p in parts:
        out = out + p
    return out


class TaggedStr(str):
    """a str subclass as applications have them (marker types, str-mixin enums): its characters are its value, whatever
    str() and repr() choose to print for it"""

    def __str__(self):
        return "<tagged:%d>" % len(self)

    def __repr__(self):
        return "TaggedStr(%d)" % len(self)


class PlainSub(str):
    """a str subclass that overrides nothing"""


_SUB = None


def fmtstr_subclass():
    """an application's FmtStr subclass: extra state and its own constructor signature"""
    global _SUB
    if _SUB is None:
        from curtsies.formatstring import FmtStr

        class Labelled(FmtStr):
            def __init__(self, label, chunks):
                super().__init__(*chunks)
                self.label = label

        _SUB = Labelled
    return _SUB


def as_subclass(f):
    """the same value as an instance of the subclass"""
    return fmtstr_subclass()("label", list(f.chunks))


def apply_layer(f, outer, how=0):
    """formatting applied on top of an existing (possibly multi-run) FmtStr through the public constructors"""
    from curtsies.formatstring import fmtstr
    from curtsies import fmtfuncs

    names = [FG_NAME[v] if k == "fg" else "on_" + BG_NAME[v] if k == "bg" else k for k, v in sorted(outer.items()) if v]
    if how % 3 == 0:
        for n in names:
            f = getattr(fmtfuncs, n)(f)
        return f if names else fmtfuncs.plain(f)
    if how % 3 == 1:
        return fmtstr(f, *names)
    return fmtstr(f, **{k: v for k, v in outer.items() if v})


def build_plainmix(desc):
    """like build(), but runs without attributes are added as plain str operands"""
    from curtsies.formatstring import FmtStr, fmtstr

    out = None
    for t, a in desc:
        piece = t if not a else fmtstr(t, **dict(a))
        if out is None:
            out = piece if not isinstance(piece, str) else FmtStr() + piece
        else:
            out = out + piece
    return out if out is not None else FmtStr()


# ---------------------------------------------------------------------------------------
# values with a history: observations that fill caches, and derivations from observed parents


def observe(f, bits):
    """Perform non-mutating public operations on f (selected by the bits of `bits`) so that every memoised view and
    lazily built index exists *before* the operation under test.  None of these may change f."""
    n = len(f.s) if bits & 4 else None
    ops = (
        lambda: str(f), lambda: len(f), lambda: f.s, lambda: f.width, lambda: hash(f), lambda: repr(f),
        lambda: f.divides, lambda: f.splice("x", min(1, len(f.s))), lambda: f.append("y"), lambda: f[0:1],
        lambda: f.shared_atts, lambda: f == f.copy(), lambda: f.splice("zz", 0, min(2, len(f.s))), lambda: f[len(f.s) // 2 :],
        lambda: f.setitem(0, "q") if len(f.s) else None, lambda: list(f.width_aware_splitlines(3)),
    )
    for i, op in enumerate(ops):
        if bits >> i & 1:
            try:
                op()
            except Exception:
                pass


DERIVED = ("d_removed", "d_false", "d_slice", "d_concat", "d_copy", "d_mul", "d_join", "d_splice", "d_split")


def build_derived(desc, recipe, bits=0xFFFF):
    """A FmtStr whose cells are cells_of_desc(desc), obtained from *observed* parents through public operations.
    A description with at least one run gives a value with at least one run (several properties quantify over those only)."""
    f = _build_derived(desc, recipe, bits)
    if desc and not f.chunks:
        return build(desc, "chunks")
    return f


def _build_derived(desc, recipe, bits=0xFFFF):
    from curtsies.formatstring import FmtStr, fmtstr

    if recipe == "d_removed":
        used = {k for _, a in desc for k in a}
        free = [k for k in ("underline", "blink", "bold", "bg", "fg", "invert", "italic", "dark") if k not in used]
        if not free or not desc:
            return build(desc, "chunks")
        x = free[0]
        val = 32 if x == "fg" else 42 if x == "bg" else True
        parent = build([[t, {**a, x: val}] for t, a in desc], "chunks")
        observe(parent, bits)
        return parent.new_with_atts_removed(x)
    if recipe == "d_false":
        on = {k for _, a in desc for k, v in a.items() if v}
        free = [k for k in STYLES if k not in on]
        if not free or not desc:
            return build(desc, "chunks")
        x = free[len(desc) % len(free)]
        parent = build([[t, {**{k: v for k, v in a.items() if k != x}, x: True}] for t, a in desc], "chunks")
        observe(parent, bits)
        return fmtstr(parent, **{x: False})
    if recipe == "d_slice":
        parent = build([["<<", {"fg": 35}]] + [list(r) for r in desc] + [[">>", {"bg": 46}]], "chunks")
        observe(parent, bits)
        n = sum(len(t) for t, _ in desc)
        return parent[2 : 2 + n]
    if recipe == "d_concat":
        out = FmtStr()
        for t, a in desc:
            part = build([[t, a]], "chunks")
            observe(part, bits)
            observe(out, bits)
            out = out + part
        return out
    if recipe == "d_copy":
        parent = build(desc, "chunks")
        observe(parent, bits)
        return parent.copy()
    if recipe == "d_mul":
        # value built by repetition: the same run objects appear several times
        for n in (3, 2):
            if desc and len(desc) % n == 0 and desc == desc[: len(desc) // n] * n:
                base = build(desc[: len(desc) // n], "chunks")
                observe(base, bits)
                return base * n
        parent = build(desc, "chunks")
        observe(parent, bits)
        return parent * 1
    if recipe == "d_join":
        # the result of join: single-run parts put together by a separator without runs
        parts = []
        for t, a in desc:
            part = build([[t, a]], "chunks")
            observe(part, bits)
            parts.append(part)
        sep = FmtStr()
        observe(sep, bits)
        return sep.join(parts)
    if recipe == "d_splice":
        # the result of splice: a placeholder run of the parent replaced by the run that belongs there
        if not desc:
            return build(desc, "chunks")
        i = len(desc) // 2
        parent = build([list(r) for r in desc[:i]] + [["??", {"fg": 36, "invert": True}]] + [list(r) for r in desc[i + 1 :]], "chunks")
        piece = build([list(desc[i])], "chunks")
        observe(parent, bits)
        observe(piece, bits)
        s = sum(len(t) for t, _ in desc[:i])
        return parent.splice(piece, s, s + 2)
    if recipe == "d_split":
        # a piece returned by split: the value followed by a separator and a tail, cut at the separator
        text = "".join(t for t, _ in desc)
        sep = next((c for c in "|#\x1e" if c not in text), None)
        if sep is None or not desc:
            return build(desc, "chunks")
        parent = build([list(r) for r in desc] + [[sep, {}], ["tail", {"bold": True}]], "chunks")
        observe(parent, bits)
        return parent.split(sep)[0]
    raise ValueError(recipe)


def build_any(desc, mode="chunks", bits=0):
    """build by plain mode or derived recipe; then (optionally) observe the result itself"""
    f = build_derived(desc, mode, bits or 0x3F) if mode in DERIVED else (build_plainmix(desc) if mode == "plainmix" else build(desc, mode))
    if bits:
        observe(f, bits)
    return f
