"""C17 - fmtstr accepts any string: never raises, never loses ordinary text."""
from __future__ import annotations

import itertools

from hypothesis import strategies as st

from .. import sgr
from ..cells import PlainSub, cells
from ..common import Res, call, exc_str, hyp_campaign

PROP = "C17"
RULE = (
    "(a) every string of length <=4 (quick) / <=5 (thorough) over the 15-symbol alphabet {a,\\n,ESC,U+009B,[,0,1,3,;,space,"
    "m,H,?,~,@} enumerated completely; (b) Hypothesis grammar: ordinary text interleaved with well-formed numeric CSI "
    "sequences (SGR supported/unsupported incl. 38;5;n, cursor moves, erases), truncated/nested sequences, two-byte escapes, "
    "8-bit CSI; (c) real-world samples built from the escape literals of the repository's tests/docs. Oracle: no exception; "
    "result text embeds into s as a subsequence that keeps every character outside the conservative escape shadow "
    "(vf/sgr.py:shadow); no introducer -> verbatim and unformatted; only text + well-formed numeric CSI -> text is exactly s "
    "without the sequences. Non-trivial: >=1 introducer and >=1 ordinary character after it."
    ' Plus very long numeric parameters (5000 digits), 600 parameters in one sequence, 45-token mixes forcing the fallback path, text pieces up to 200 characters.'
    " 'Tight' token mixes (bare introducers, sequences and single characters from the final-byte/intermediate ranges packed without gaps); a share of inputs as instances of a str subclass."
)
ASSUMPTIONS = [
    "'part of an escape sequence' is judged by a conservative scanner (introducer, char after ESC, run of 0x20-0x3F, one final byte)",
    "'ordinary numeric CSI sequence' = ESC[ d+(;d+)* final-byte or ESC[ final-byte, final byte in @-~ (no empty parameters inside a list)",
]
SHARDS = {"quick": 8, "thorough": 16}
ALPHA = ["a", "\n", "\x1b", "\x9b", "[", "0", "1", "3", ";", " ", "m", "H", "?", "~", "@"]
INTRO = ("\x1b", "\x9b")


def embeds_keeping(s, r, sh):
    """can r be obtained from s by deleting only shadowed positions?"""
    n, m = len(s), len(r)
    if m > n:
        return False
    if r == s:
        return True
    # reach = set of j such that s[:i] can yield r[:j]; unshadowed characters must be kept, so the set stays small
    reach = {0}
    for i in range(n):
        ch, can_drop = s[i], sh[i]
        nxt = set()
        for j in reach:
            if can_drop:
                nxt.add(j)
            if j < m and r[j] == ch:
                nxt.add(j + 1)
        if not nxt:
            return False
        # prune: r[j:] must still fit into what is left of s
        reach = {j for j in nxt if m - j <= n - i - 1}
        if not reach:
            return False
    return m in reach


def build_string(case):
    if "s" in case:
        return case["s"], None
    parts, pure, stripped = [], True, []
    for kind, val in case["tokens"]:
        if kind == "t":
            parts.append(val)
            stripped.append(val)
        elif kind == "csi":  # well-formed numeric CSI: [params, final]
            params, final = val
            parts.append("\x1b[" + ";".join(str(p) for p in params) + final)
        else:  # raw fragment: truncated / nested / two-byte / 8-bit
            parts.append(val)
            pure = False
    return "".join(parts), ("".join(stripped) if pure else None)


def run_case(case):
    res = Res()
    from curtsies.formatstring import FmtStr, fmtstr

    s, expect_text = build_string(case)
    if case.get("sub"):
        s = PlainSub(s)  # an instance of a str subclass (a marker type overriding nothing) is a str
        res.label("str_subclass_instance")
    has_intro = any(c in s for c in INTRO)
    if has_intro:
        first = min(s.find(c) for c in INTRO if c in s)
        sh = sgr.shadow(s)
        if any(not sh[i] for i in range(first + 1, len(s))):
            res.label("intro_then_text")
            res.nontrivial = True
        if "\n" in s:
            res.label("newline_near_escape")
        if "\x1b[" in s:
            res.label("parse_path")
    else:
        sh = [False] * len(s)
        res.label("no_introducer")
    if expect_text is not None and has_intro:
        res.label("pure_numeric_csi")

    for name, fn in (("fmtstr", fmtstr), ("from_str", FmtStr.from_str)):
        f, e = call(fn, s)
        if e is not None:
            res.viol("raised", via=name, error=exc_str(e), s=s[:200])
            continue
        r = f.s
        if not has_intro:
            if r != s:
                res.viol("plain_text_changed", via=name, s=s[:200], got=r[:200])
            elif any(c[1:] != (None, None, ()) for c in cells(f)):
                res.viol("plain_text_formatted", via=name, s=s[:200])
            continue
        if not embeds_keeping(s, r, sh):
            res.viol("text_lost_or_invented", via=name, s=s[:200], got=r[:200])
        if expect_text is not None and r != expect_text:
            res.viol("numeric_csi_not_removed_exactly", via=name, s=s[:200], got=r[:200], expected=expect_text[:200])
    return res


_TEXT_ALPHA = "abc xyz\n\t[]0123;m?HJ~é中%ds{}"
TEXT = st.one_of(st.text(alphabet=_TEXT_ALPHA, min_size=1, max_size=5), st.text(alphabet=_TEXT_ALPHA, min_size=1, max_size=5),
                 st.text(alphabet=_TEXT_ALPHA, min_size=30, max_size=200))
FINALS = "mmmmHJKABCDfGsudhlr@`~"
SGR_PARAMS = st.one_of(
    st.sampled_from([[10 ** 19], [2 ** 64, 1], [int("7" * 400)], [0] * 40, [1, 31] * 12]),
    st.sampled_from([[38, 5], [48, 5], [38, 2, 255, 128], [1, 48, 5], [38], [48], [38, 2], [58, 5, 1], [38, 5, 1, 48]]),
    st.lists(st.sampled_from([0, 1, 2, 3, 4, 5, 7, 22, 24, 27, 31, 32, 39, 41, 44, 49, 90, 97, 100]), min_size=0, max_size=3),
    st.sampled_from([[38, 5, 196], [48, 5, 21], [38, 2, 1, 2, 3], [1, 31], [0, 1], [10, 20], [2], [999]]),
)


def strategy():
    csi = st.tuples(st.just("csi"), st.tuples(SGR_PARAMS, st.sampled_from(FINALS)).map(list)).map(list)
    raw = st.tuples(
        st.just("raw"),
        st.sampled_from(
            ["\x1b", "\x1b[", "\x1b[3", "\x1b[31", "\x1b[31;", "\x1b[;", "\x1b[?25l", "\x1b[?", "\x9b", "\x9b31m", "\x9b1;2",
             "\x1bM", "\x1b7", "\x1b(B", "\x1b]0;t\x07", "\x1b[\x1b[31m", "\x1b\x1b", "\x1b[1 q", "\x1b[;5H", "\x1b[5;m", "\x1b[m"]
        ),
    ).map(list)
    txt = st.tuples(st.just("t"), TEXT).map(list)
    pure = st.lists(st.one_of(txt, csi), min_size=1, max_size=8)
    mixed = st.lists(st.one_of(txt, csi, raw), min_size=1, max_size=8)
    # long inputs: more escape sequences than any small constant (e.g. a regex count argument), fallback path forced by
    # SGR numbers the parser does not know
    unknown_sgr = st.tuples(st.just("csi"), st.tuples(st.sampled_from([[90], [97], [20], [22], [100], [90, 1]]), st.just("m")).map(list)).map(list)
    long_ = st.lists(st.one_of(txt, csi, unknown_sgr, unknown_sgr), min_size=18, max_size=45)
    # tight: introducers, sequences and single characters from the ranges escape-sequence grammars care about (final
    # bytes @-~, intermediates, digits), packed with nothing in between - what one sequence leaves behind meets the next
    edge = st.tuples(st.just("t"), st.sampled_from(list("ABHJKMZ@[\\]^_`amz~ 019;?\n"))).map(list)
    bare = st.tuples(st.just("raw"), st.sampled_from(["\x1b", "\x1b", "\x9b", "\x1b\x1b", "\x1b["])).map(list)
    tight = st.lists(st.one_of(edge, edge, bare, unknown_sgr, csi), min_size=3, max_size=7)
    tokens = st.one_of(pure, mixed, pure, mixed, long_, tight, tight)
    return st.fixed_dictionaries({"tokens": tokens, "sub": st.sampled_from([0, 0, 0, 0, 1])})


REAL_WORLD = [
    "\x1b[1m>>> \x1b[0mprint(\x1b[33m'hi'\x1b[39m)\n",
    "\x1b[38;5;196mred\x1b[0m plain \x1b[48;5;21mbg\x1b[m\n",
    "\x1b[2J\x1b[H\x1b[31mtop\x1b[39m\x1b[10;20Hthere\x1b[K",
    "|\x1b[31m\x1b[44mhey\x1b[49m\x1b[39m|",
    "\x1b[01;34mdir\x1b[0m  \x1b[01;32mexe\x1b[0m\nnext line",
    "\x1b[33m[\x1b[39m\x1b[33m]\x1b[39m\x1b[33m[\x1b[39m",
    "def \x1b[34mf\x1b[39m():\n    \x1b[32mreturn\x1b[39m \x1b[31m1\x1b[39m\n",
    "\x1b[mreset only",
    "\x1b[A\x1b[2Kup and erase\x1b[1B",
    "no escapes at all\njust text",
    "progress 100% done \x1b[38mweird\x1b[0m and %d %s %(x)s %% too",
    "".join("\x1b[%dm%s\x1b[0m " % (90 + i % 8, "word%d" % i) for i in range(30)) + "\n",
    "".join("\x1b[38;5;%dmx" % i for i in range(40)) + "\x1b[0m",
    "\x1b[31mred\x1b[39m \x1bMline1\nline2",
    "top\x1b[?25l\nhidden cursor\x1b[?25h\nend",
    "x\x1b[" + "7" * 5000 + "my",
    "x\x1b[" + "1;" * 600 + "1mz\x1b[0m",
    "a\x1b[" + "9" * 400 + "Hb",
    "\x1b[31m" + "q" * 5000 + "\x1b[39m",
]


def campaign(col, tier, seed, shard, nshards):
    maxlen = 4 if tier == "quick" else 5
    i = 0
    for L in range(0, maxlen + 1):
        for tup in itertools.product(ALPHA, repeat=L):
            i += 1
            if i % nshards != shard:
                continue
            case = {"s": "".join(tup)}
            if i % 5 == 0:
                case["sub"] = 1
            res = run_case(case)
            unknown = col.record(case, res, distinct=True, sample=(i % 7919 == 3))
            if unknown:
                col.add_violation(case, unknown)
    col.exhaustive[f"strings_len_le_{maxlen}_over_15_symbols"] = True
    if shard == 0:
        for s in REAL_WORLD:
            case = {"s": s}
            unknown = col.record(case, run_case(case))
            if unknown:
                col.add_violation(case, unknown)
    n = 6000 if tier == "quick" else 300000
    hyp_campaign(col, strategy(), run_case, max(n // nshards, 100), seed * 100 + shard)
    if tier == "thorough":
        import sys as _sys

        from ..common import fuzz_stage

        fuzz_stage(col, _sys.modules[__name__], 200000 // nshards, seed * 100 + shard)
