"""C06 - Indexing, slicing, +, * and join act like str and carry formatting along."""
from __future__ import annotations

from hypothesis import strategies as st

from .. import gen
from ..cells import PlainSub, TaggedStr, as_subclass, build_any, cells, cells_of_desc, cells_of_str, show, text_of
from ..common import Res, call, exc_str, hyp_campaign

PROP = "C06"
RULE = (
    "Hypothesis FmtStr descriptions (0-5 runs incl. no runs and empty runs, short texts); per generated string ALL "
    "(start, stop) pairs with each bound in [-len-2, len+2] U {None} and all integer indices in that range are enumerated; "
    "+ with FmtStr/str on either side; * n for n in 0..4; sep.join(items) for generated lists of str/FmtStr. Oracle: the same "
    "Python operation on the operands' cell lists (plain str -> unformatted cells), len == number of cells, .s == str "
    "operation on .s. Non-trivial: bounds on different runs, any negative bound, or an operand with an empty run."
    ' Operands also carry a history (derived from observed parents, caches and the divides index filled) and come in large sizes (for long strings the bound grid is all run boundaries +-1, the ends and a spread of interior points); plain-str operands may contain a bare ESC or U+009B; repeat counts up to 100, joins of up to 40 items.'
    " Operands also as instances of a str subclass (one overriding __str__) and of a FmtStr subclass with its own constructor; the result of an earlier + (escape-carrying plain-str operands included) as operand of *, slicing, + and join; every +, * and join is made a second time with the same operand objects and judged again; complete enumeration of join (<=3 items, 4 separators) and + over degenerate operands (no runs, one empty run, '', one character)."
)
ASSUMPTIONS = [
    "for integer indices where str raises IndexError the only demand is that no non-empty result is returned",
    "formatting equality is cell equality (bold=False == absent)",
]
SHARDS = {"quick": 4, "thorough": 16}


def operand(spec):
    """spec: {"str": "..."} or {"desc": [...]} -> (real value, cells)"""
    if "concat" in spec:
        # the result of an earlier + (FmtStr and plain str operands in any order) used as an operand itself
        from curtsies.formatstring import FmtStr

        parts = [operand(x) for x in spec["concat"]]
        val, cs = FmtStr(), []
        for v, c in parts:
            val = val + v
            cs = cs + c
        return val, cs
    if "str" in spec:
        if spec.get("sub"):
            # a str subclass instance is a str: its characters count, not what its __str__ prints
            return (TaggedStr if spec["sub"] == 1 else PlainSub)(spec["str"]), cells_of_str(spec["str"])
        return spec["str"], cells_of_str(spec["str"])
    f = build_any(spec["desc"], spec.get("build", "chunks"), spec.get("obs", 0))
    if spec.get("sub"):
        f = as_subclass(f)  # an instance of a FmtStr subclass is a FmtStr: same text, same formatting, same results
    return f, cells_of_desc(spec["desc"])


def check_value(res, what, got, expected, **ctx):
    c, e = call(cells, got)
    if e is not None:
        res.viol(what + "_unreadable", error=exc_str(e), **ctx)
        return False
    if c != expected:
        res.viol(what + "_cells_differ", got=show(c), expected=show(expected), **ctx)
        return False
    ok = True
    if len(got) != len(expected):
        res.viol(what + "_len_wrong", got=len(got), expected=len(expected), **ctx)
        ok = False
    if got.s != text_of(expected):
        res.viol(what + "_s_wrong", got=got.s, expected=text_of(expected), **ctx)
        ok = False
    return ok


def run_case(case):
    res = Res()
    op = case["op"]
    if op == "slices":
        if "value" in case:
            f, base = operand(case["value"])
            desc = [[text_of([c]), {"fg": c[1]} if c[1] else {}] for c in base]  # (only used to place the bounds)
            res.label("slices_of_an_earlier_result")
        else:
            desc = case["desc"]
            f = build_any(desc, case.get("build", "chunks"), case.get("obs", 0))
            base = cells_of_desc(desc)
        if case.get("sub"):
            f = as_subclass(f)
            res.label("fmtstr_subclass_instance")
        if case.get("obs") or case.get("build") in gen.DERIVED_BUILDS:
            res.label("operand_with_history")
        n = len(base)
        if n <= 10:
            bounds = [None] + list(range(-n - 2, n + 3))
        else:
            # long string: all bounds on, one before and one after every run boundary, the ends, past the ends - and
            # their negative spellings - plus a spread of interior points
            pts, acc = {0, 1, 2, n - 2, n - 1, n, n + 1, n + 2, n // 2, n // 3}, 0
            for t, _ in desc:
                acc += len(t)
                pts.update((acc - 1, acc, acc + 1))
            pts = sorted(p for p in pts if 0 <= p <= n + 2)
            pts = pts[:: max(1, len(pts) // 14)][:14] + pts[-2:]
            bounds = [None] + pts + sorted({p - n for p in pts if p - n < 0} | {-n - 2, -n - 1})
        run_of = []
        for ri, (t, a) in enumerate(desc):
            run_of.extend([ri] * len(t))
        if any(not t for t, a in desc):
            res.label("empty_run")
        if not desc:
            res.label("no_runs")
        if len({tuple(sorted(a.items())) for t, a in desc if t}) >= 2:
            res.label("multi_run")
        evals = 0
        for a in bounds:
            for b in bounds:
                evals += 1
                got, e = call(lambda: f[a:b])
                if e is not None:
                    res.viol("slice_raised", start=a, stop=b, desc=desc, error=exc_str(e))
                    continue
                exp = base[a:b]
                if a is not None and a < 0 or b is not None and b < 0:
                    res.label("negative_bound")
                check_value(res, "slice", got, exp, start=a, stop=b, desc=desc)
        for i in (range(-n - 2, n + 3) if n <= 10 else [b for b in bounds if b is not None]):
            evals += 1
            got, e = call(lambda: f[i])
            try:
                exp = [base[i]]
            except IndexError:
                exp = None
            if exp is None:
                # statement does not say the exception type is mirrored: only "no non-empty result"
                if e is None and len(cells(got)) > 0:
                    res.viol("index_out_of_range_returned_text", index=i, desc=desc, got=show(cells(got)))
            else:
                if i < 0:
                    res.label("negative_index")
                if e is not None:
                    res.viol("index_raised", index=i, desc=desc, error=exc_str(e))
                else:
                    check_value(res, "index", got, exp, index=i, desc=desc)
        res.evals = evals
        res.nontrivial = n >= 1 and bool(res.labels & {"multi_run", "empty_run", "negative_bound"})
        # value must be unchanged by all of that
        if cells(f) != base:
            res.viol("operand_changed_by_slicing", desc=desc)
    elif op == "add":
        (l, lc), (r, rc) = operand(case["left"]), operand(case["right"])
        if isinstance(l, str) and isinstance(r, str):
            return res
        res.label("add_str_left" if isinstance(l, str) else "add_str_right" if isinstance(r, str) else "add_fmt_fmt")
        # every operation is made twice with the same operand objects: the second result is judged like the first
        for attempt in ("first", "same_operands_again"):
            got, e = call(lambda: l + r)
            if e is not None:
                res.viol("add_raised", error=exc_str(e), attempt=attempt, case=case)
                break
            if not check_value(res, "add", got, lc + rc, attempt=attempt, case=case):
                break
        res.nontrivial = bool(lc and rc)
    elif op == "mul":
        f, c = operand(case["value"])
        n = case["n"]
        res.label("mul_%d" % min(n, 2))
        for attempt in ("first", "same_operands_again"):
            got, e = call(lambda: f * n)
            if e is not None:
                res.viol("mul_raised", error=exc_str(e), attempt=attempt, case=case)
                break
            if not check_value(res, "mul", got, c * n, attempt=attempt, case=case):
                break
        res.nontrivial = bool(c) and n >= 2
    elif op == "join":
        sep, sc = operand(case["sep"])
        items = [operand(x) for x in case["items"]]
        exp = []
        for k, (_, ic) in enumerate(items):
            if k:
                exp += sc
            exp += ic
        vals = [v for v, _ in items]
        kind = case.get("iterable", len(vals)) % 4  # any iterable will do: list, tuple, one-shot generator, iterator
        got, e = call(lambda: sep.join([vals, tuple(vals), (x for x in vals), iter(vals)][kind]))
        if e is None and kind >= 2:
            # observe the result the way a user would: text, length, and a further operation built on them
            call(lambda: (got.s, len(got), got.ljust(len(vals) + 3), got.append("z")))
        res.label("join_%d" % min(len(items), 3))
        if e is not None:
            res.viol("join_raised", error=exc_str(e), case=case)
        elif check_value(res, "join", got, exp, case=case):
            got2, e2 = call(lambda: sep.join(list(vals)))
            if e2 is not None:
                res.viol("join_raised", error=exc_str(e2), attempt="same_operands_again", case=case)
            else:
                check_value(res, "join", got2, exp, attempt="same_operands_again", case=case)
        res.nontrivial = len(items) >= 2 and bool(sc)
    return res


SUB = st.sampled_from([0, 0, 0, 0, 0, 1])


def strategy():
    d = gen.desc_sized(alphabet=gen.NARROW + "é中", max_runs=5, max_len=3, big_runs=24, big_len=70)
    operand_s = st.one_of(
        st.fixed_dictionaries({"desc": d, "build": gen.BUILDS, "obs": gen.OBS, "sub": SUB}),
        st.fixed_dictionaries({"str": gen.plain_str(4), "sub": st.sampled_from([0, 0, 0, 1, 2])}),
    )
    fs = st.fixed_dictionaries({"desc": d, "build": gen.BUILDS, "obs": gen.OBS, "sub": SUB})
    composed = st.fixed_dictionaries({"concat": st.lists(operand_s, min_size=2, max_size=3)})
    return st.one_of(
        st.fixed_dictionaries({"op": st.just("slices"), "value": composed}),
        st.fixed_dictionaries({"op": st.just("mul"), "value": composed, "n": st.integers(0, 3)}),
        st.fixed_dictionaries({"op": st.just("add"), "left": composed, "right": operand_s}),
        st.fixed_dictionaries({"op": st.just("join"), "sep": st.one_of(fs, composed), "items": st.lists(st.one_of(operand_s, composed), max_size=4)}),
        st.fixed_dictionaries({"op": st.just("slices"), "desc": d, "build": gen.BUILDS, "obs": gen.OBS, "sub": SUB}),
        st.fixed_dictionaries({"op": st.just("slices"), "desc": d, "build": gen.BUILDS, "obs": gen.OBS, "sub": SUB}),
        st.fixed_dictionaries({"op": st.just("add"), "left": operand_s, "right": fs}),
        st.fixed_dictionaries({"op": st.just("add"), "left": fs, "right": operand_s}),
        st.fixed_dictionaries({"op": st.just("mul"), "value": fs, "n": st.one_of(st.integers(0, 4), st.integers(0, 4), st.sampled_from([7, 16, 33, 64, 100]))}),
        st.fixed_dictionaries({"op": st.just("join"), "sep": fs, "items": st.one_of(st.lists(operand_s, max_size=5), st.lists(operand_s, max_size=5), st.lists(operand_s, min_size=9, max_size=40))}),
    )


def enum_small(col, shard, nshards):
    """join and + over every short list drawn from the degenerate operands (no runs at all, one empty run, '', one character,
    one formatted character) with four separators: the classes that matter are met at every seed"""
    import itertools

    pool = [{"desc": []}, {"desc": [["", {}]]}, {"desc": [["", {"fg": 31}]]}, {"str": ""}, {"str": "a"}, {"desc": [["b", {"fg": 31}]]}, {"desc": [], "sub": 1}]
    seps = [{"desc": [[", ", {"fg": 34}]]}, {"desc": []}, {"desc": [["", {"bold": True}]]}, {"desc": [["-", {}]]}]
    i = 0
    for n in (0, 1, 2, 3):
        for items in itertools.product(pool, repeat=n):
            for sep in seps:
                i += 1
                if i % nshards != shard:
                    continue
                case = {"op": "join", "sep": sep, "items": [dict(x) for x in items], "iterable": i}
                unknown = col.record(case, run_case(case), distinct=True, sample=False)
                if unknown:
                    col.add_violation(case, unknown)
    for l in pool:
        for r in pool:
            i += 1
            if i % nshards != shard:
                continue
            case = {"op": "add", "left": dict(l), "right": dict(r)}
            unknown = col.record(case, run_case(case), distinct=True, sample=False)
            if unknown:
                col.add_violation(case, unknown)
    col.exhaustive["join_and_add_over_degenerate_operands"] = True


def campaign(col, tier, seed, shard, nshards):
    enum_small(col, shard, nshards)
    n = 2400 if tier == "quick" else 320000
    hyp_campaign(col, strategy(), run_case, max(n // nshards, 100), seed * 100 + shard)
    if tier == "thorough":
        import sys as _sys

        from ..common import fuzz_stage

        fuzz_stage(col, _sys.modules[__name__], 20000 // nshards, seed * 100 + shard)
