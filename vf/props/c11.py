"""C11 - width_aware_splitlines wraps to the column limit without losing anything."""
from __future__ import annotations

import itertools

from hypothesis import strategies as st

from .. import widths
from ..cells import build_any, cells, cells_of_desc, show
from ..common import Res, call, exc_str, hyp_campaign
from ..widths import cw, total
from .c10 import FMTS, SYMS, layouts

PROP = "C11"
RULE = (
    "All strings of length 1..5 (quick) / 1..6 (thorough) over {a, U+FF25, U+4E2D, U+0301, U+0324} in every 1-, 2- and 3-run layout "
    "(empty runs, runs ending exactly at a line boundary, wide characters at every alignment), columns 2..6 enumerated; "
    "Hypothesis adds longer inputs / more runs / larger columns. Oracle (validity): every line <= columns wide, all but the last "
    "exactly columns, none empty, concatenation minus legitimate padding spaces (end of line, next line starts with a "
    "double-width char of the same formatting) == cells(f); differential: greedy reference wrap gives the same partition of "
    "base cells. Non-trivial: >=2 lines and (a padding space or a run boundary exactly at a line boundary)."
    ' Hypothesis inputs go up to 70 runs / 150 characters per run, column limits up to 132, and are also built by repetition of the same run objects (f * n) and other derivations from observed parents.'
    ' Two results for different widths consumed alternately must each yield what they yield alone.'
)
ASSUMPTIONS = [
    "character widths: wcwidth package restricted to an alphabet on which it agrees with cwcwidth (checked at start)",
    "placement of zero-width characters relative to a line break is free (the statement does not determine it)",
    "a FmtStr with no runs at all is outside the quantifier (it lists empty runs, not absent ones)",
]
SHARDS = {"quick": 8, "thorough": 16}


def reference_partition(src, columns):
    """greedy wrap over base cells: list of line lengths counted in base cells"""
    lines, cur_w, cur_n = [], 0, 0
    for c in src:
        w = cw(c[0])
        if w == 0:
            continue
        if cur_w + w > columns:
            lines.append(cur_n)
            cur_w, cur_n = 0, 0
        cur_w += w
        cur_n += 1
        if cur_w == columns:
            lines.append(cur_n)
            cur_w, cur_n = 0, 0
    if cur_n:
        lines.append(cur_n)
    return lines


def check(res, f, src, columns, desc, run_ends):
    out, e = call(lambda: list(f.width_aware_splitlines(columns)))
    if e is not None:
        res.viol("raised", columns=columns, desc=desc, error=exc_str(e))
        return
    lines = [cells(l) for l in out]
    ctx = dict(columns=columns, desc=desc, lines=[show(l) for l in lines][:8])
    for i, l in enumerate(lines):
        w = total(l)
        if len(l) == 0:
            res.viol("empty_line", index=i, **ctx)
            return
        if w > columns:
            res.viol("line_too_wide", index=i, **ctx)
            return
        if i < len(lines) - 1 and w != columns:
            res.viol("inner_line_not_full", index=i, **ctx)
            return
    # reassemble, deleting only legitimate padding
    j = 0
    pads = 0
    partition = []
    for i, l in enumerate(lines):
        nbase = 0
        for k, c in enumerate(l):
            is_last = k == len(l) - 1
            if j < len(src) and src[j] == c:
                j += 1
                if cw(c[0]) > 0:
                    nbase += 1
                continue
            # not the next source cell: only acceptable as a padding space
            nxt = None
            if i + 1 < len(lines):
                nxt = next((d for d in lines[i + 1] if cw(d[0]) > 0), None)
            if is_last and c[0] == " " and nxt is not None and cw(nxt[0]) == 2 and nxt[1:] == c[1:]:
                pads += 1
                continue
            res.viol("content_changed", line=i, pos=k, **ctx)
            return
        partition.append(nbase)
    if j != len(src):
        res.viol("content_lost", consumed=j, total=len(src), **ctx)
        return
    ref = reference_partition(src, columns)
    if [p for p in partition if p] != ref:
        res.viol("partition_differs_from_greedy", got=partition, expected=ref, **ctx)
    if len(lines) >= 2:
        if pads:
            res.label("padding_space")
            res.nontrivial = True
        # run boundary exactly at a line boundary
        consumed = 0
        bounds = set()
        for l in lines[:-1]:
            consumed += len(l)
            bounds.add(consumed)
        if pads == 0 and bounds & run_ends:
            res.label("run_ends_at_line_boundary")
            res.nontrivial = True
    for o in out:
        ow, e = call(lambda: o.width)
        if e is not None:
            res.viol("line_width_raised", error=exc_str(e), **ctx)
            break


def run_case(case):
    res = Res()
    desc = case["desc"]
    f = build_any(desc, case.get("build", "chunks"), case.get("obs", 0))
    src = cells_of_desc(desc)
    run_ends, acc = set(), 0
    for t, a in desc[:-1]:
        acc += len(t)
        run_ends.add(acc)
    if any(not t for t, a in desc):
        res.label("empty_run")
    cols = case.get("columns") or [2, 3, 4, 5, 6]
    res.evals = len(cols)
    for columns in cols:
        check(res, f, src, columns, desc, run_ends)
        if len(res.violations) > 4:
            break
    if len(cols) >= 2 and not res.violations:
        # the result is produced lazily: two of them alive at once and consumed in turns (zip(...), a loop over lines whose
        # body wraps the same text again) must each yield what they yield when consumed alone
        res.label("two_results_consumed_alternately")
        c1, c2 = cols[0], cols[1]

        def alone(c):
            return [cells(l) for l in f.width_aware_splitlines(c)]

        def alternately():
            its = [iter(f.width_aware_splitlines(c1)), iter(f.width_aware_splitlines(c2))]
            got, live = [[], []], [True, True]
            while any(live):
                for k in (0, 1):
                    if live[k]:
                        try:
                            got[k].append(cells(next(its[k])))
                        except StopIteration:
                            live[k] = False
            return got

        want, e1 = call(lambda: [alone(c1), alone(c2)])
        got, e2 = call(alternately)
        res.evals += 1
        if e1 is None and (e2 is not None or got != want):
            res.viol("results_consumed_alternately_differ", columns=[c1, c2], desc=desc, error=exc_str(e2) if e2 else "",
                     got=[[show(l) for l in g][:6] for g in got] if e2 is None else None)
    if cells(f) != src:
        res.viol("operand_changed", desc=desc)
    return res


def strategy():
    alpha = "ab" + "Ｅ中" + "̤́" + widths.EXTRA_ZERO + widths.EXTRA_WIDE
    run = st.tuples(st.text(alphabet=alpha, min_size=0, max_size=7), st.sampled_from(FMTS)).map(list)
    long_run = st.tuples(st.one_of(st.text(alphabet=alpha + "aaab", min_size=20, max_size=150), st.text(alphabet=alpha + "aaab", min_size=250, max_size=600)), st.sampled_from(FMTS)).map(list)
    descs = st.one_of(st.lists(run, min_size=1, max_size=5), st.lists(run, min_size=1, max_size=5), st.lists(run, min_size=8, max_size=70),
                      st.lists(long_run, min_size=1, max_size=3))
    cols = st.one_of(st.integers(2, 9), st.integers(2, 9), st.sampled_from([10, 16, 20, 40, 64, 79, 80, 81, 132, 255, 256, 257, 300]))
    from ..gen import OBS

    rep = st.tuples(st.lists(run, min_size=1, max_size=3), st.integers(2, 3)).map(lambda t: [list(r) for r in t[0]] * t[1])
    return st.fixed_dictionaries({"desc": st.one_of(descs, descs, descs, rep), "columns": st.lists(cols, min_size=1, max_size=3, unique=True),
                                  "build": st.sampled_from(["chunks", "chunks", "chunks", "d_mul", "d_mul", "d_slice", "d_concat", "d_copy"]), "obs": OBS})


def campaign(col, tier, seed, shard, nshards):
    widths.check_agreement()
    maxlen = 5 if tier == "quick" else 6
    i = 0
    for L in range(1, maxlen + 1):
        for tup in itertools.product(SYMS, repeat=L):
            s = "".join(tup)
            for lay_i, parts in enumerate(layouts(s)):
                i += 1
                if i % nshards != shard:
                    continue
                case = {"desc": [[p, FMTS[(k + lay_i) % 3]] for k, p in enumerate(parts)]}
                res = run_case(case)
                unknown = col.record(case, res, distinct=True, sample=(i % 9001 == 7))
                if unknown:
                    col.add_violation(case, unknown)
    col.exhaustive[f"strings_len_le_{maxlen}_x_layouts_x_columns_2_6"] = True
    n = 2400 if tier == "quick" else 80000
    hyp_campaign(col, strategy(), run_case, max(n // nshards, 100), seed * 100 + shard)
