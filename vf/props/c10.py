"""C10 - width and width_aware_slice measure and cut by terminal columns."""
from __future__ import annotations

import itertools

from hypothesis import strategies as st

from .. import widths
from ..cells import build, build_any, cells, cells_of_desc, show
from ..common import Res, call, exc_str, hyp_campaign
from ..widths import cw, layout, total

PROP = "C10"
RULE = (
    "All strings of length <=4 (quick) / <=6 (thorough) over {a, U+FF25, U+4E2D, U+0301, U+0324} in every 1-, 2- and 3-run "
    "layout (cut points enumerated, empty runs included), each run with its own formatting; per layout ALL column ranges "
    "0<=a<=b<=width+2 and all offsets n<=len are enumerated; Hypothesis adds longer strings/more runs. Oracle: independent "
    "column model (wcwidth table): width, width_at_offset, slice width == columns that exist, base cells wholly inside kept "
    "with formatting, cut double-width char -> one space with its formatting, nothing else; zero-width marks lenient (must "
    "stay attached to their own base cell, in order; survival on an edge not asserted). Non-trivial: an edge inside a "
    "double-width character, or a run boundary adjacent to a wide/zero-width character."
    ' Hypothesis strings go up to 70 runs / 70 characters per run and are also built by repeated concatenation with every intermediate width observed, by repetition of run objects, by slicing and by attribute removal from observed parents.'
    ' Marks stacked on a character lying wholly inside the range, with the range going on past it, must all be present; an integer column index must equal the one-column slice.'
)
ASSUMPTIONS = [
    "character widths: wcwidth package restricted to an alphabet on which it agrees with cwcwidth (checked at start)",
    "whether a zero-width mark on a slice edge survives is not determined by the statement and is not asserted",
]
SHARDS = {"quick": 8, "thorough": 16}
FMTS = [{"fg": 31}, {"bg": 44}, {"bold": True}, {}, {"fg": 32, "underline": True}]
SYMS = ["a", "Ｅ", "中", "́", "̤"]


def check_slice(res, f, src, lay, W, marks_by_base, a, b, desc):
    r, e = call(lambda: f.width_aware_slice(slice(a, b)))
    if e is not None:
        res.viol("slice_raised", a=a, b=b, desc=desc, error=exc_str(e))
        return
    rc = cells(r)
    want_w = min(b, W) - min(a, W)
    exp, sidx = [], []
    for x, w, c, bi in lay:
        if w == 0:
            continue
        inside = min(b, x + w) - max(a, x)  # number of this character's columns inside [a, b)
        if inside == w:
            exp.append(c)
            sidx.append(bi)
        elif inside > 0:  # partial overlap: only possible for a double-width char
            exp.append((" ",) + c[1:])
            sidx.append(bi)
            res.label("cut_left" if x < a else "cut_right")
            res.nontrivial = True
    got_bases = [c for c in rc if cw(c[0]) > 0]
    if got_bases != exp:
        res.viol("slice_base_cells_wrong", a=a, b=b, desc=desc, got=show(rc), expected=show(exp))
        return
    if total(rc) != want_w:
        res.viol("slice_width_wrong", a=a, b=b, desc=desc, got=total(rc), expected=want_w)
    rw, e = call(lambda: r.width)
    if e is not None:
        res.viol("result_width_raised", a=a, b=b, desc=desc, error=exc_str(e), result=show(rc))
    elif rw != want_w:
        res.viol("result_width_attr_wrong", a=a, b=b, desc=desc, got=rw, expected=want_w)
    # zero-width marks: lenient
    k = -1
    # before the first base cell of the result: a mark sitting on the left edge belongs to the cell in column a-1, which is
    # not part of the range - only at the very start of the string (a == 0, attached to nothing) it is tolerated
    allowed = [(c) for (x, c) in marks_by_base.get("edge%d" % a, [])] if a == 0 else []
    ptr = 0
    got_marks = {}
    for c in rc:
        if cw(c[0]) > 0:
            k += 1
            allowed = [m for (x, m) in marks_by_base.get(sidx[k], [])]
            ptr = 0
            continue
        while ptr < len(allowed) and allowed[ptr] != c:
            ptr += 1
        if ptr >= len(allowed):
            res.viol("mark_invented_or_moved", a=a, b=b, desc=desc, got=show(rc), mark=show([c]))
            return
        ptr += 1
        if k >= 0:
            got_marks.setdefault(k, []).append(c)
    # a character lying wholly inside the range, with the range going on past it, is held by the requested columns together
    # with the marks stacked on it: all of them must be there (only for the character ending exactly at the right edge, or
    # cut by an edge, the statement leaves the marks open)
    end_of = {bi: x + w for x, w, c, bi in lay if w > 0}
    start_of = {bi: x for x, w, c, bi in lay if w > 0}
    for k, bi in enumerate(sidx):
        if start_of[bi] >= a and end_of[bi] < min(b, W):
            want = [m for (x, m) in marks_by_base.get(bi, [])]
            if got_marks.get(k, []) != want:
                res.viol("mark_inside_the_range_lost", a=a, b=b, desc=desc, got=show(rc), expected_marks=show(want))
                return
            if want:
                res.label("marks_strictly_inside_range")


def run_case(case):
    res = Res()
    desc = case["desc"]
    if case.get("build") == "observed_concat":
        # built by repeated concatenation with every intermediate value measured first (memoised widths in play);
        # runs without attributes are appended as plain str
        from curtsies.formatstring import FmtStr, fmtstr

        f = FmtStr()
        for t, a in desc:
            call(lambda: f.width)
            f = f + (t if not a else fmtstr(t, **a))
        res.label("observed_concat")
    else:
        f = build_any(desc, case.get("build", "chunks"), case.get("obs", 0))
    src = cells_of_desc(desc)
    lay = layout(src)
    W = total(src)
    marks_by_base = {}
    for x, w, c, bi in lay:
        if w == 0:
            marks_by_base.setdefault(bi, []).append((x, c))
            marks_by_base.setdefault("edge%d" % x, []).append((x, c))
    if any(t and all(cw(ch) == 0 for ch in t) for t, a in desc):
        res.label("zero_width_only_run")
        res.nontrivial = True
    # run boundary adjacent to a wide / zero-width character
    pos = 0
    for t, a in desc[:-1]:
        pos += len(t)
        if 0 < pos < len(src) and (cw(src[pos - 1][0]) != 1 or cw(src[pos][0]) != 1):
            res.label("boundary_next_to_wide_or_mark")
            res.nontrivial = True
    evals = 0

    def check_width():
        w, e = call(lambda: f.width)
        if e is not None:
            res.viol("width_raised", desc=desc, error=exc_str(e))
        elif w != W:
            res.viol("width_wrong", desc=desc, got=w, expected=W)

    offsets_first = bool(case.get("offsets_first", len(src) % 2))  # either order of the two measurements
    if not offsets_first:
        check_width()
    evals += 1
    acc = 0
    for n in range(len(src) + 1):
        evals += 1
        got, e = call(lambda: f.width_at_offset(n))
        if e is not None:
            res.viol("width_at_offset_raised", n=n, desc=desc, error=exc_str(e))
        elif got != acc:
            res.viol("width_at_offset_wrong", n=n, desc=desc, got=got, expected=acc)
        if n < len(src):
            acc += cw(src[n][0])
    if offsets_first:
        res.label("offsets_measured_before_width")
        check_width()
    # a second pair of measurements in the middle of the string, then the total again
    if src:
        call(lambda: f.width_at_offset(len(src) // 2))
        check_width()
    if W <= 14:
        edges = list(range(0, W + 3))
    else:
        # wide string: edges at, before and after every run boundary and around every double-width / zero-width character
        pts = {0, 1, W - 1, W, W + 1, W + 2, W // 2}
        for x, w, c, bi in lay:
            if w != 1:
                pts.update((x - 1, x, x + 1, x + 2))
        pos = 0
        for t, _ in desc:
            for ch in t:
                pos += cw(ch)
            pts.update((pos - 1, pos, pos + 1))
        edges = sorted(p for p in pts if 0 <= p <= W + 2)[:30]
    for a in edges:
        for b in [e for e in edges if e >= a]:
            evals += 1
            if a == b and any(x < a < x + w for x, w, c, bi in lay if w == 2):
                res.label("empty_range_inside_wide")
            check_slice(res, f, src, lay, W, marks_by_base, a, b, desc)
            if len(res.violations) > 6:
                res.evals = evals
                return res
    # an integer index c means the one-column range c..c
    for c_ in range(0, min(W, 12)):
        evals += 1
        one, e1 = call(lambda: f.width_aware_slice(c_))
        ref, e2 = call(lambda: f.width_aware_slice(slice(c_, c_ + 1)))
        if (e1 is None) != (e2 is None) or (e1 is None and cells(one) != cells(ref)):
            res.viol("integer_column_index_differs_from_one_column_slice", column=c_, desc=desc,
                     got=show(cells(one)) if e1 is None else exc_str(e1), expected=show(cells(ref)) if e2 is None else exc_str(e2))
            break
    res.evals = evals
    return res


def layouts(s):
    """all 1-, 2- and 3-run layouts of the text s (cut points may coincide -> empty runs)"""
    n = len(s)
    yield [s]
    for i in range(0, n + 1):
        yield [s[:i], s[i:]]
    for i in range(0, n + 1):
        for j in range(i, n + 1):
            yield [s[:i], s[i:j], s[j:]]


def strategy():
    from ..gen import OBS as gen_OBS

    alpha = "ab" + "Ｅ中" + "̤́" + widths.EXTRA_ZERO + widths.EXTRA_WIDE
    run = st.tuples(st.text(alphabet=alpha, min_size=0, max_size=5), st.sampled_from(FMTS)).map(list)
    long_run = st.tuples(st.one_of(st.text(alphabet=alpha + "aaab", min_size=10, max_size=70), st.text(alphabet=alpha + "aaab", min_size=240, max_size=300)), st.sampled_from(FMTS)).map(list)
    return st.fixed_dictionaries({"desc": st.one_of(st.lists(run, min_size=0, max_size=5), st.lists(run, min_size=0, max_size=5),
                                                     st.lists(run, min_size=8, max_size=70), st.lists(run, min_size=33, max_size=80), st.lists(long_run, min_size=1, max_size=3),
                                                     st.tuples(st.lists(run, min_size=1, max_size=3), st.integers(2, 3)).map(lambda t: [list(r) for r in t[0]] * t[1])),
                                  "build": st.sampled_from(["chunks", "chunks", "observed_concat", "d_mul", "d_slice", "d_concat", "d_removed", "d_copy"]), "obs": gen_OBS})


def campaign(col, tier, seed, shard, nshards):
    widths.check_agreement()
    maxlen = 4 if tier == "quick" else 6
    i = 0
    for L in range(0, maxlen + 1):
        for tup in itertools.product(SYMS, repeat=L):
            s = "".join(tup)
            for lay_i, parts in enumerate(layouts(s)):
                i += 1
                if i % nshards != shard:
                    continue
                case = {"desc": [[p, FMTS[(k + lay_i) % 3]] for k, p in enumerate(parts)]}
                res = run_case(case)
                unknown = col.record(case, res, distinct=True, sample=(i % 4001 == 7))
                if unknown:
                    col.add_violation(case, unknown)
    col.exhaustive[f"strings_len_le_{maxlen}_x_layouts_x_all_ranges"] = True
    n = 2400 if tier == "quick" else 50000
    hyp_campaign(col, strategy(), run_case, max(n // nshards, 100), seed * 100 + shard)
