"""C01 - str(FmtStr) displays exactly its characters and formatting, then resets."""
from __future__ import annotations

from hypothesis import strategies as st

from .. import gen, sgr
from ..cells import apply_layer, build_any, cells_of_desc, show
from ..common import Res, call, exc_str, hyp_campaign

PROP = "C01"
RULE = (
    "(a) complete enumeration of the 9x9x3^6=59049 attribute dicts (style absent/True/False) on a run placed "
    "between neighbour runs from a fixed spread of 24 attribute sets, texts from ascii/control/wide/combining/empty; "
    "(b) Hypothesis FmtStr descriptions (0-6 runs, ESC-free alphabet incl. controls, wide, combining, astral) built "
    "through Chunk lists, fmtstr(**kw), fmtstr(*names), nested fmtfuncs, one fmtfuncs call with extra names and keywords, str+FmtStr mixing, and formatting layered over an existing multi-run value. Oracle: independent "
    "SGR interpreter (cells equal, final graphic state default, nothing but SGR). Non-trivial: >=2 non-empty runs "
    "with different formatting, or a run with >=1 style and a colour."
    ' Values are also built by derivation from observed parents (attribute removal, switching a style off, slicing, concatenation, copy, repetition after str/len/width/hash/repr/divides/splice/... filled every cache) and in large sizes (65-130 runs, texts of hundreds of characters).'
)
ASSUMPTIONS = [
    "ANSI terminal = ECMA-48/xterm SGR semantics for parameters 0,1,2,3,4,5,7,30-37,39,40-47,49 (vf/sgr.py)",
    "formatting equality is cell equality: bold=False and absent bold are the same formatting",
]
SHARDS = {"quick": 4, "thorough": 16}
MODES = ["chunks", "fmtstr", "names", "funcs", "plainmix", "funcs_extra"]


def run_case(case):
    desc = case["desc"]
    mode = case.get("build", "fmtstr")
    res = Res()
    expected = cells_of_desc(desc)
    fmts = [tuple(sorted((k, v) for k, v in a.items() if v)) for t, a in desc if t]
    if len(set(fmts)) >= 2:
        res.label("multi_format")
    if any(("fg" in a or "bg" in a) and any(a.get(s) for s in gen.STYLES) for t, a in desc if t):
        res.label("style_and_colour")
    if any(not t for t, a in desc):
        res.label("empty_run")
    if any(v is False for t, a in desc for v in a.values()):
        res.label("explicit_false")
    if any(ord(ch) < 32 for t, a in desc for ch in t):
        res.label("control_char")
    res.nontrivial = bool(res.labels & {"multi_format", "style_and_colour"})

    if mode in gen.DERIVED_BUILDS:
        res.label("derived_from_observed_parent")
    f, e = call(build_any, desc, mode, case.get("obs", 0))
    if e is not None:
        res.viol("build_raised", error=exc_str(e), mode=mode)
        return res
    if case.get("outer") is not None:
        # formatting applied on top of the whole (multi-run) value: every run keeps its own and gains the layer's
        outer = {k: v for k, v in case["outer"].items() if v}
        res.label("layer_over_existing_runs")
        f, e = call(apply_layer, f, outer, case.get("how", 0))
        if e is not None:
            res.viol("build_raised", error=exc_str(e), mode="layer")
            return res
        expected = cells_of_desc([[t, {**a, **outer}] for t, a in desc])
    s, e = call(str, f)
    if e is not None:
        res.viol("str_raised", error=exc_str(e))
        return res
    got, state, problems = sgr.interpret(s)
    if problems:
        res.viol("non_sgr_content", problems=problems[:3], s=s[:200])
    if got != expected:
        res.viol("display_differs", s=s[:300], got=show(got), expected=show(expected))
    if not state.is_default():
        res.viol("state_not_reset", final=list(state.fmt()), s=s[:300])
    if str(f) != s:
        res.viol("str_unstable", first=s[:200], second=str(f)[:200])
    return res


def strategy():
    base = {"desc": gen.desc_sized(alphabet=gen.ALL_TEXT, max_runs=6, max_len=4), "build": st.sampled_from(MODES + MODES + gen.DERIVED_BUILDS), "obs": gen.OBS}
    layered = dict(base, outer=gen.atts(allow_false=False, bias_empty=False), how=st.integers(0, 2))
    return st.one_of(st.fixed_dictionaries(base), st.fixed_dictionaries(base), st.fixed_dictionaries(layered))


TEXTS = ["a", "xy", "\n", "a\tb", "Ｅ", "é", ""]


def campaign(col, tier, seed, shard, nshards):
    # (a) exhaustive attribute space in neighbour contexts
    nb = gen.NEIGHBOURS
    if tier == "quick":
        ctxs = [(nb[(i * 5) % len(nb)], nb[(i * 7 + 3) % len(nb)]) for i in range(2)]
    else:
        ctxs = [(l, r) for l in nb for r in nb[::3]]
    idx = 0
    for a in gen.all_attribute_dicts(with_false=True):
        idx += 1
        if idx % nshards != shard:
            continue
        for ci, (l, r) in enumerate(ctxs):
            t = TEXTS[(idx + ci) % len(TEXTS)]
            case = {"desc": [["L", l], [t, a], ["R", r]], "build": (MODES[:4] + ["funcs_extra"])[(idx + ci) % 5]}
            res = run_case(case)
            unknown = col.record(case, res, distinct=True, sample=(idx % 9973 == 1))
            if unknown:
                col.add_violation(case, unknown)
    col.exhaustive["attribute_dicts_59049"] = True
    # (b) generated descriptions
    n = 2500 if tier == "quick" else 100000
    hyp_campaign(col, strategy(), run_case, max(n // nshards, 100), seed * 100 + shard)
