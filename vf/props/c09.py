"""C09 - splice replaces exactly the requested range and nothing else."""
from __future__ import annotations

from hypothesis import strategies as st

from .. import gen
from ..cells import TaggedStr, as_subclass, build_any, cells, cells_of_desc, cells_of_str, show
from ..common import Res, call, exc_str, hyp_campaign

PROP = "C09"
RULE = (
    "Hypothesis pairs (f, new): f a FmtStr description with 0-5 runs incl. empty runs at start/middle/end, new a str or "
    "FmtStr (multi-run, empty, zero runs); per pair ALL 0 <= start <= end <= len+2 and end omitted are enumerated, plus "
    "append(new). Oracle: list splice on cell lists cells(f)[:s] + cells(new) + cells(f)[e:]; f's cells and str(f) unchanged. "
    "Non-trivial: start or end on, one before or one after an interior run boundary."
    ' Receiver and new value also carry a history (derived from observed parents) and come in large sizes (up to 130 runs; start/end then range over run boundaries +-1 and the ends); plain-str new values may contain a bare ESC or U+009B.'
    ' Receiver and inserted value also as FmtStr-subclass instances, the plain-str value as a str-subclass instance; splice/append spelt positionally, with keywords and mixed.'
)
ASSUMPTIONS = ["formatting equality is cell equality (bold=False == absent)"]
SHARDS = {"quick": 4, "thorough": 16}


def run_case(case):
    res = Res()
    desc = case["desc"]
    f = build_any(desc, case.get("build", "chunks"), case.get("obs", 0))
    if case.get("sub") in (1, 3):
        f = as_subclass(f)  # the receiver is an instance of an application's FmtStr subclass: still a FmtStr
        res.label("receiver_is_subclass_instance")
    if case.get("obs") or case.get("build") in gen.DERIVED_BUILDS:
        res.label("receiver_with_history")
    base = cells_of_desc(desc)
    if "same_text" in case:
        # the new value has exactly the text of a range of f, but other formatting ("repainting")
        k, m, natts = case["same_text"]
        base_text = "".join(t for t, _ in desc)
        k = k % (len(base_text) + 1)
        txt = base_text[k : k + m]
        if natts is None:
            new, newc = txt, cells_of_str(txt)
        else:
            cut = len(txt) // 2
            nd = [[txt[:cut], natts[0]], [txt[cut:], natts[1]]]
            new, newc = build_any(nd, "chunks"), cells_of_desc(nd)
        res.label("new_has_the_text_it_replaces")
    elif "new_str" in case:
        new, newc = case["new_str"], cells_of_str(case["new_str"])
        if case.get("sub") in (2, 3):
            new = TaggedStr(new)  # a str subclass instance is a str: its characters go in
        res.label("new_is_str")
    else:
        new, newc = build_any(case["new_desc"], case.get("new_build", "chunks"), case.get("new_obs", 0)), cells_of_desc(case["new_desc"])
        res.label("new_is_fmtstr")
        if not case["new_desc"]:
            res.label("new_zero_runs")
    if case.get("sub") in (2, 3) and not isinstance(new, str):
        new = as_subclass(new)
        res.label("new_is_subclass_instance")
    if not newc:
        res.label("empty_new")
    n = len(base)
    # interior run boundaries (between non-empty neighbours on both sides somewhere)
    divs, acc = [], 0
    for t, a in desc:
        acc += len(t)
        divs.append(acc)
    interior = {d for d in divs[:-1] if 0 < d < n}
    if desc and not desc[0][0]:
        res.label("leading_empty_run")
    if any(not t for t, a in desc[1:]):
        res.label("inner_or_trailing_empty_run")
    near = {d + k for d in interior for k in (-1, 0, 1)}
    str_before, e0 = call(str, f)
    if e0 is not None:
        res.viol("str_of_receiver_raised", error=exc_str(e0), desc=desc)
        return res
    evals = 0
    if n <= 12:
        pts = list(range(0, n + 3))
    else:
        pts = sorted({0, 1, n - 1, n, n + 1, n + 2, n // 2} | {d + k for d in divs for k in (-1, 0, 1) if 0 <= d + k <= n + 2})
        pts = pts[:: max(1, len(pts) // 12)][:12] + pts[-2:]
    pairs = [(s, e) for s in pts for e in pts if e >= s] + [(s, None) for s in pts]
    for s, e in pairs:
        evals += 1
        ee = s if e is None else e
        if s in near or ee in near:
            res.nontrivial = True
        if e is None and s in interior:
            res.label("insert_at_boundary")
        if not newc and ee > s:
            res.label("empty_new_with_range")
        kw = (s + ee + len(newc)) % 3  # positional / keyword / mixed spelling of the same call
        if e is None:
            got, err = call(lambda: f.splice(new, s) if kw == 0 else f.splice(new_str=new, start=s) if kw == 1 else f.splice(new, start=s))
        else:
            got, err = call(lambda: f.splice(new, s, e) if kw == 0 else f.splice(new_str=new, start=s, end=e) if kw == 1 else f.splice(new, s, end=e))
        if err is not None:
            res.viol("splice_raised", start=s, end=e, error=exc_str(err), desc=desc, new=case.get("new_str", case.get("new_desc", case.get("same_text"))))
            continue
        exp = base[:s] + newc + base[ee:]
        gc, err = call(cells, got)
        if err is not None or gc != exp:
            res.viol(
                "splice_wrong", start=s, end=e, desc=desc, new=case.get("new_str", case.get("new_desc", case.get("same_text"))),
                got=show(gc) if err is None else exc_str(err), expected=show(exp),
            )
        else:
            ln, err = call(len, got)
            if err is not None or ln != len(exp):
                res.viol("splice_len_wrong", start=s, end=e, desc=desc, got=ln if err is None else exc_str(err), expected=len(exp))
    evals += 1
    got, err = call(lambda: f.append(new) if len(newc) % 2 else f.append(string=new))
    if err is not None:
        res.viol("append_raised", error=exc_str(err), desc=desc)
    elif cells(got) != base + newc:
        res.viol("append_wrong", desc=desc, new=case.get("new_str", case.get("new_desc", case.get("same_text"))), got=show(cells(got)), expected=show(base + newc))
    if cells(f) != base or str(f) != str_before:
        res.viol("operand_changed", desc=desc)
    res.evals = evals
    return res


SUB = st.sampled_from([0, 0, 0, 0, 0, 1, 2, 3])


def strategy():
    d = gen.desc_sized(alphabet="abcde 31m[\u0301\uff25", max_runs=5, max_len=3, big_runs=24, big_len=60)
    same = st.fixed_dictionaries({"desc": d, "same_text": st.tuples(st.integers(0, 12), st.integers(1, 4),
                                  st.one_of(st.none(), st.tuples(gen.atts(), gen.atts()).map(list))).map(list), "build": gen.BUILDS, "obs": gen.OBS, "sub": SUB})
    return st.one_of(
        same,
        st.fixed_dictionaries({"desc": d, "new_str": st.one_of(gen.text("XY\u0301\uff25", 0, 2), gen.plain_str(3)), "build": gen.BUILDS, "obs": gen.OBS, "sub": SUB}),
        st.fixed_dictionaries({"desc": d, "new_desc": gen.desc_sized(alphabet="XY", max_runs=3, max_len=2, big_runs=12, big_len=40),
                               "build": gen.BUILDS, "obs": gen.OBS, "new_build": gen.BUILDS, "new_obs": gen.OBS, "sub": SUB}),
    )


def campaign(col, tier, seed, shard, nshards):
    n = 1600 if tier == "quick" else 128000
    hyp_campaign(col, strategy(), run_case, max(n // nshards, 100), seed * 100 + shard)
    if tier == "thorough":
        import sys as _sys

        from ..common import fuzz_stage

        fuzz_stage(col, _sys.modules[__name__], 30000 // nshards, seed * 100 + shard)
