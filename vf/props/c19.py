"""C19 - Equality, hashing and repr of FmtStr are coherent with what it displays."""
from __future__ import annotations

import ast

from hypothesis import strategies as st

from .. import gen
from ..cells import BG_NAME, FG_NAME, STYLES, as_subclass, build, build_any, cells, cells_of_desc, show
from ..common import Res, call, exc_str, hyp_campaign

PROP = "C19"
RULE = (
    "Hypothesis pairs biased towards near misses: b derived from a by identity, re-splitting a run, adding an empty run, adding a "
    "False-valued attribute, changing one attribute, changing the text, taking a's terminal string or a's plain text as a plain str, "
    "plus independent pairs; oracle: (a==b) is (str(a)==str(b)) in both operand orders, != its negation, cells differ => unequal, "
    "a==b => hash equal, set size and dict lookup consistent. repr: FmtStr with >=1 run over texts with quotes, backslashes, "
    "newlines, non-ASCII; eval(repr(f)) in a namespace holding only the fmtfuncs names must give the same cells, and the AST may "
    "contain only those names, string literals, + and calls. Non-trivial: pair differing only in formatting or only in run "
    "boundaries; repr of a multi-run value with >=2 attributes on a run."
    ' b may be a itself with formatting applied after a was rendered, hashed and compared. Both operands may be derived from observed parents (rendered/hashed before the derivation); pairs with the same display and the same number of runs but shifted or moved boundaries; repr texts include long whitespace-only runs.'
    ' Operands also as FmtStr-subclass instances; the terminal string of a as the text of a plain run (FmtStr() + str(a)) as partner; a fixed spread of values with invisible formatting (no runs, empty runs, switched-off styles only) against every derivation at every seed.'
)
ASSUMPTIONS = ["'same terminal string' is judged with the library's own str() (C01 establishes what str() displays)"]
SHARDS = {"quick": 4, "thorough": 16}
HOWS = ["reformat_observed_a", "same", "resplit", "shift_boundary", "shift_boundary", "move_empty_run", "add_empty_run", "add_false_att", "change_att", "change_text", "termstr_as_str", "termstr_in_plain_run", "text_as_str", "independent", "independent_str"]


def derive(case):
    a = [list(r) for r in case["a"]]
    how, k = case["how"], case.get("k", 0)
    b = [[t, dict(at)] for t, at in a]
    if how == "same":
        return {"desc": b}
    if how == "resplit":
        idx = [i for i, (t, at) in enumerate(b) if len(t) >= 2]
        if not idx:
            return {"desc": b}
        i = idx[k % len(idx)]
        t, at = b[i]
        cut = 1 + (k // 7) % (len(t) - 1)
        return {"desc": b[:i] + [[t[:cut], dict(at)], [t[cut:], dict(at)]] + b[i + 1 :]}
    if how == "shift_boundary":
        # same display, same number of runs, run boundary at a different place
        idx = [i for i, (t, at) in enumerate(b) if len(t) >= 3]
        if not idx:
            return {"desc": b}
        i = idx[k % len(idx)]
        t, at = b[i]
        c1 = 1 + (k // 7) % (len(t) - 1)
        c2 = 1 + (c1 + (k // 31) % (len(t) - 2)) % (len(t) - 1)
        if c1 == c2:
            c2 = 1 if c1 != 1 else 2
        mk = lambda c: b[:i] + [[t[:c], dict(at)], [t[c:], dict(at)]] + b[i + 1 :]
        return {"desc": mk(c2), "a_desc": mk(c1)}
    if how == "move_empty_run":
        extra = case.get("extra_atts", {"fg": 31})
        return {"desc": b + [["", dict(extra)]], "a_desc": [["", dict(extra)]] + b}
    if how == "add_empty_run":
        i = k % (len(b) + 1)
        return {"desc": b[:i] + [["", case.get("extra_atts", {"fg": 31})]] + b[i:]}
    if how == "add_false_att":
        if not b:
            return {"desc": b}
        i = k % len(b)
        name = STYLES[(k // 5) % 6]
        if not b[i][1].get(name):
            b[i][1][name] = False
        return {"desc": b}
    if how == "change_att":
        if not b:
            return {"desc": b}
        i = k % len(b)
        b[i][1] = dict(case.get("extra_atts", {"fg": 31}))
        return {"desc": b}
    if how == "change_text":
        if not b:
            return {"desc": [["x", {}]]}
        i = k % len(b)
        b[i][0] = b[i][0] + "x" if k % 2 else b[i][0][1:]
        return {"desc": b}
    if how == "reformat_observed_a":
        # b is made from a by applying formatting to it after a was rendered, hashed and compared
        extra = dict(case.get("extra_atts", {"fg": 31}))
        return {"desc": [[t, {**at, **extra}] for t, at in b], "reformat": extra}
    if how == "termstr_as_str":
        return {"termstr_of_a": True}
    if how == "termstr_in_plain_run":
        return {"termstr_of_a_as_run": True}
    if how == "text_as_str":
        return {"str": "".join(t for t, at in a)}
    if how == "independent_str":
        return {"str": case.get("b_str", "")}
    return {"desc": case.get("b", [])}


def check_pair(res, a, b, cells_differ, case):
    sa = str(a)
    sb = b if isinstance(b, str) else str(b)
    want = sa == sb
    for name, fn in (("a==b", lambda: a == b), ("b==a", lambda: b == a)):
        got, e = call(fn)
        if e is not None:
            res.viol("eq_raised", which=name, error=exc_str(e), case=case)
            return
        if got is not want:
            res.viol("eq_disagrees_with_terminal_string", which=name, got=repr(got), expected=want, str_a=sa[:120], str_b=sb[:120], case=case)
            return
    for name, fn in (("a!=b", lambda: a != b), ("b!=a", lambda: b != a)):
        got, e = call(fn)
        if e is not None or got is not (not want):
            res.viol("ne_not_negation", which=name, got=repr(got), case=case)
            return
    if cells_differ and want:
        res.viol("different_display_compares_equal", case=case)
    ha, e1 = call(hash, a)
    hb, e2 = call(hash, b)
    if e1 is not None or e2 is not None:
        res.viol("hash_raised", error=exc_str(e1 or e2), case=case)
        return
    if want and ha != hb:
        res.viol("equal_but_hash_differs", case=case)
    s, e = call(lambda: {a, b})
    if e is not None:
        res.viol("set_raised", error=exc_str(e), case=case)
    elif len(s) != (1 if want else 2):
        res.viol("set_membership_inconsistent", size=len(s), equal=want, case=case)
    d = {a: 1}
    if (b in d) is not want:
        res.viol("dict_lookup_inconsistent", equal=want, case=case)
    d2 = {b: 1}
    if (a in d2) is not want:
        res.viol("dict_lookup_inconsistent_reverse", equal=want, case=case)
    if hash(a) != ha or str(a) != sa:
        res.viol("hash_or_str_unstable", case=case)


def allowed_names():
    return set(FG_NAME.values()) | {"on_" + n for n in BG_NAME.values()} | set(STYLES) | {"on_dark", "plain"}


def check_repr(res, desc, case):
    from curtsies import fmtfuncs

    f = build(desc, "chunks")
    if case.get("sub"):
        f = as_subclass(f)
    r, e = call(repr, f)
    if e is not None:
        res.viol("repr_raised", error=exc_str(e), case=case)
        return
    names = allowed_names()
    try:
        tree = ast.parse(r, mode="eval")
    except SyntaxError as se:
        res.viol("repr_not_an_expression", repr=r[:200], error=str(se), case=case)
        return
    for node in ast.walk(tree):
        ok = isinstance(node, (ast.Expression, ast.BinOp, ast.Add, ast.Call, ast.Load)) or (
            isinstance(node, ast.Constant) and isinstance(node.value, str)
        ) or (isinstance(node, ast.Name) and node.id in names)
        if isinstance(node, ast.Call) and node.keywords:
            ok = False
        if not ok:
            res.viol("repr_uses_something_else", node=ast.dump(node)[:100], repr=r[:200], case=case)
            return
    ns = {n: getattr(fmtfuncs, n) for n in names}
    v, e = call(lambda: eval(compile(tree, "<repr>", "eval"), {"__builtins__": {}}, ns))
    if e is not None:
        res.viol("repr_eval_raised", repr=r[:200], error=exc_str(e), case=case)
        return
    src = cells_of_desc(desc)
    if cells(v) != src:
        res.viol("repr_roundtrip_differs", repr=r[:200], got=show(cells(v)), expected=show(src), case=case)
    if len([1 for t, a in desc if t]) >= 2 and any(sum(1 for x in a.values() if x) >= 2 for t, a in desc):
        res.label("repr_multi_run_multi_att")
        res.nontrivial = True


def run_case(case):
    res = Res()
    if case.get("kind") == "repr":
        res.label("repr")
        check_repr(res, case["desc"], case)
        return res
    a_desc = case["a"]
    bspec = derive(case)
    if "a_desc" in bspec:
        a_desc = bspec["a_desc"]
    a = build_any(a_desc, case.get("a_build", "chunks"), case.get("a_obs", 0))
    if case.get("a_obs") or case.get("b_obs") or case.get("a_build", "chunks") != "chunks" or case.get("b_build", "chunks") != "chunks":
        res.label("operand_with_history")
    res.label("how_" + case["how"])
    if "termstr_of_a" in bspec:
        b, bc = str(a), None
        res.label("str_operand")
    elif "termstr_of_a_as_run" in bspec:
        # the terminal string of a as the *text* of an unformatted run (a plain str operand is taken verbatim): it
        # produces the same terminal string as a, with a different length and different runs
        from curtsies.formatstring import FmtStr

        b, bc = (FmtStr() + str(a)) if case.get("k", 0) % 2 else FmtStr().join([str(a)]), None
        res.label("escape_codes_as_plain_text_operand")
        res.nontrivial = True
    elif "reformat" in bspec:
        from curtsies.formatstring import fmtstr

        call(lambda: (str(a), hash(a), a == a, repr(a)))
        extra = bspec["reformat"]
        b, e_ = call(lambda: a.copy_with_new_atts(**extra) if case.get("k", 0) % 2 else fmtstr(a, **extra))
        if e_ is not None:
            res.viol("reformatting_raised", error=exc_str(e_), case=case)
            return res
        bc = cells_of_desc(bspec["desc"])
        res.label("b_reformatted_from_observed_a")
        res.nontrivial = True
    elif "str" in bspec:
        b, bc = bspec["str"], [(ch, None, None, ()) for ch in bspec["str"]]
        res.label("str_operand")
    else:
        b, bc = build_any(bspec["desc"], case.get("b_build", "chunks"), case.get("b_obs", 0)), cells_of_desc(bspec["desc"])
    if case.get("sub"):
        # instances of an application's FmtStr subclass are FmtStrs: they compare and hash by what they display
        res.label("subclass_instance_operand")
        if case["sub"] in (1, 3):
            a = as_subclass(a)
        if case["sub"] in (2, 3) and not isinstance(b, str):
            b = as_subclass(b)
    ac = cells_of_desc(a_desc)
    cells_differ = bc is not None and bc != ac and not isinstance(b, str)
    if bc is not None and not isinstance(b, str):
        if [c[0] for c in ac] == [c[0] for c in bc] and ac != bc:
            res.label("same_text_different_formatting")
            res.nontrivial = True
        if ac == bc and [t for t, _ in a_desc] != [t for t, _ in bspec["desc"]]:
            res.label("same_display_different_runs")
            res.nontrivial = True
    check_pair(res, a, b, cells_differ, case)
    return res


def strategy():
    d = gen.desc_sized(alphabet="ab é\n31m[", max_runs=4, max_len=4, big_runs=30, big_len=80, huge=False)
    pair = st.fixed_dictionaries(
        {
            "a": d,
            "how": st.sampled_from(HOWS),
            "k": st.integers(0, 200),
            "extra_atts": gen.atts(),
            "b": d,
            "b_str": gen.text("ab é", 0, 4),
            "a_build": gen.BUILDS, "a_obs": gen.OBS, "b_build": gen.BUILDS, "b_obs": gen.OBS,
            "sub": st.sampled_from([0, 0, 0, 0, 0, 1, 2, 3]),
        }
    )
    rtext = st.one_of(st.text(alphabet="ab{}%", min_size=0, max_size=5), st.text(alphabet="ab'\"\\\n\té中 x", min_size=0, max_size=5), st.text(alphabet="ab'\"\\\n\té中 x+(),=*", min_size=0, max_size=8),
                      st.text(alphabet="+'\"a()", min_size=0, max_size=8),
                      st.text(alphabet=" \t\n\xa0", min_size=0, max_size=40), st.text(alphabet="ab' \\\n", min_size=12, max_size=120))
    rdesc = st.lists(st.tuples(rtext, gen.atts()).map(list), min_size=1, max_size=4)
    rep = st.fixed_dictionaries({"kind": st.just("repr"), "desc": rdesc, "sub": st.sampled_from([0, 0, 0, 1])})
    return st.one_of(pair, pair, rep)


def campaign(col, tier, seed, shard, nshards):
    if shard == 0:
        # repr over the complete attribute space on one run
        i = 0
        for a in gen.all_attribute_dicts(with_false=(tier == "thorough")):
            i += 1
            case = {"kind": "repr", "desc": [["q'\\", a], ["z", {}]]}
            unknown = col.record(case, run_case(case), distinct=True, sample=(i % 1999 == 1))
            if unknown:
                col.add_violation(case, unknown)
        col.exhaustive["repr_over_all_attribute_sets"] = True
    # a fixed spread of values whose formatting is invisible or nearly so (no runs, empty runs, switched-off styles only,
    # one formatted character) against every derivation, so that these classes are met at every seed
    ENUM_A = [
        [], [["", {}]], [["", {"fg": 31}]], [["hello", {}]], [["hello", {"bold": False}]], [["a", {}], ["b", {"underline": False}]],
        [["ab", {"bold": False, "blink": False}], ["c", {"invert": False}]], [["", {"fg": 31}], ["x", {}]], [["x", {"fg": 31}]],
        [["ab", {"bold": True}], ["ab", {"bold": False}]], [["a\nb", {"bg": 44}], ["", {}], ["c", {"bg": 44}]],
    ]
    ei = 0
    for a in ENUM_A:
        for how in sorted(set(HOWS)):
            for k in (0, 1, 2):
                ei += 1
                if ei % nshards != shard:
                    continue
                case = {"a": a, "how": how, "k": k, "extra_atts": [{"fg": 31}, {"bold": False}, {}][k], "b": ENUM_A[(ei // 3) % len(ENUM_A)], "b_str": ["", "hello", "ab"][k],
                        "sub": [0, 0, 1, 2][ei % 4]}
                unknown = col.record(case, run_case(case), distinct=True, sample=False)
                if unknown:
                    col.add_violation(case, unknown)
    col.exhaustive["invisible_formatting_spread_x_every_derivation"] = True
    n = 5000 if tier == "quick" else 640000
    hyp_campaign(col, strategy(), run_case, max(n // nshards, 100), seed * 100 + shard)
    if tier == "thorough":
        import sys as _sys

        from ..common import fuzz_stage

        fuzz_stage(col, _sys.modules[__name__], 60000 // nshards, seed * 100 + shard)
