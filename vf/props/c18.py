"""C18 - Cursor position query parses the report exactly; movement is conserved."""
from __future__ import annotations

import re

from hypothesis import strategies as st

from ..common import HarnessError, Res, call, exc_str, hyp_campaign
from ..refterm import OutStream, Pty, RefTerm, ScriptedIn

PROP = "C18"
RULE = (
    "(a) get_cursor_position on a scripted in_stream: reported row/col 1..10^6, 7-bit and 8-bit CSI, extra input before the report "
    "(keypresses, escape sequences, look-alike fragments such as ESC[12; ESC[1;2 digits lone ESC newlines - never a complete CSI n;m R), "
    "trailing input after it, 0-3 (a quarter of the cases each: a run of 4-70 consecutive, or 4-45 scattered) OSErrors injected at generated read positions, extra_bytes_callback present/absent, stream "
    "encodings utf-8/latin-1. Oracle: returns (row-1, col-1); callback gets exactly the extra bytes once, in order (or ValueError "
    "without callback); unread remainder == trailing input; exactly one ESC[6n written. (b) get_cursor_vertical_diff histories on "
    "the reference terminal: any starting top_usable_row, renders, vertical cursor movements d in -h..h, queries, movements and "
    "nested queries arriving during a query (scripted read re-enters, as a SIGWINCH handler would). Oracle: for every outermost "
    "call delta(top_usable_row) + returned == final reported row - previously recorded cursor row; a nested call returns 0 and "
    "changes nothing. Non-trivial: extra input containing ESC or digits; movement != 0 with clamping in play; nested call present."
    ' Plus: typed-ahead input of 1100 (thorough: up to 3000) characters; realistic terminal resizes (xterm semantics) with renders of up to 45 rows on terminals up to 50 rows; queries that fail as documented (typed-ahead input without callback, raising callback) followed by further movement and queries.'
)
ASSUMPTIONS = [
    "a complete 'CSI n;m R' inside the extra input is indistinguishable from a report and is excluded from the generator",
    "the previously recorded cursor row is the reference terminal's cursor row after the last render / the last reported row",
    "after content has moved, get_cursor_vertical_diff is called before the next render (the documented protocol); a render with unaccounted movement is outside the histories judged",
    "vertical movement is produced the way terminals produce it: downwards by the terminal getting taller (content and cursor move down), upwards by content scrolling up; the cursor never moves below the last row of an unchanged terminal",
]
SHARDS = {"quick": 4, "thorough": 16}
LOOKALIKE = re.compile(r"(\x1b\[|\x9b)\d+;\d+R")


class ReadPastEnd(BaseException):
    """raised by the scripted stream when the library keeps reading after report + trailing input are used up"""


class PosIn:
    exhausted = False

    def __init__(self, content, errors, encoding):
        self.content, self.errors, self.encoding = content, set(errors), encoding
        self.pos = 0
        self.calls = 0

    def read(self, n=1):
        i = self.calls
        self.calls += 1
        if i in self.errors:
            raise OSError(5, "injected")
        if self.pos >= len(self.content):
            self.exhausted = True
            raise ReadPastEnd("read past the report and all trailing input")
        ch = self.content[self.pos]
        self.pos += 1
        return ch

    def fileno(self):
        raise HarnessError("fileno() not expected in get_cursor_position")


class PosOut:
    def __init__(self):
        self.data = ""

    def write(self, s):
        self.data += s

    def flush(self):
        pass

    def fileno(self):
        return 1

    def isatty(self):
        return False


def run_pos(case, res):
    from curtsies.window import CursorAwareWindow

    extra, trailing = case["extra"], case["trailing"]
    csi = "\x1b[" if case["csi"] == "7bit" else "\x9b"
    report = f"{csi}{case['row']};{case['col']}R"
    if LOOKALIKE.search(extra) or LOOKALIKE.search(extra + report[:-1]):
        res.label("out_of_domain_lookalike")
        return res
    got_extra = []
    cb = (lambda b: got_extra.append(b)) if case["callback"] else None
    nested_first = bool(case.get("nested_first"))
    nested_report = "\x1b[7;9R" if nested_first else ""
    inp = PosIn(nested_report + extra + report + trailing, [e_ + len(nested_report) for e_ in case.get("errors", [])] if nested_first else case.get("errors", []), case["encoding"])
    out = PosOut()
    win = CursorAwareWindow(out_stream=out, in_stream=inp, extra_bytes_callback=cb)
    nested_ret = []
    if nested_first:
        # a SIGWINCH handler calls get_cursor_vertical_diff just as the query starts: it asks the terminal itself and gets
        # the first report; the interrupted call then reads its own
        res.label("nested_query_at_start_of_position_query")
        win.top_usable_row = 2  # what __enter__ would have recorded (the window is used without a tty here)
        orig_read = inp.read

        def read_with_handler(n=1):
            if not nested_ret:
                nested_ret.append(None)
                nested_ret[0] = win.get_cursor_vertical_diff()
            return orig_read(n)

        inp.read = read_with_handler
    if extra and (("\x1b" in extra) or any(ch.isdigit() for ch in extra)):
        res.nontrivial = True
        res.label("extra_with_esc_or_digits")
    if case.get("errors"):
        res.label("oserror_injected")
        if len(case["errors"]) > 10:
            res.label("more_than_10_failing_reads")
    if trailing:
        res.label("trailing_input")
    if case["csi"] == "8bit":
        res.label("csi_8bit")
    ctx = dict(case=case)
    try:
        val, e = call(win.get_cursor_position)
    except ReadPastEnd:
        res.viol("report_not_recognised_or_read_past_it", consumed=inp.pos, **ctx)
        return res
    if extra and not case["callback"]:
        res.label("no_callback_with_extra")
        if e is None:
            res.viol("extra_bytes_silently_dropped", got=repr(val), **ctx)
        elif not isinstance(e, ValueError):
            res.viol("wrong_exception_without_callback", error=exc_str(e), **ctx)
    else:
        if e is not None:
            res.viol("get_cursor_position_raised", error=exc_str(e), **ctx)
            return res
        if val != (case["row"] - 1, case["col"] - 1):
            res.viol("wrong_position", got=list(val), expected=[case["row"] - 1, case["col"] - 1], **ctx)
        want = extra.encode(case["encoding"])
        if b"".join(got_extra) != want:
            res.viol("extra_bytes_wrong", got=[b.hex() for b in got_extra], expected=want.hex(), **ctx)
        if want and len(got_extra) != 1:
            res.viol("extra_bytes_callback_called_%d_times" % len(got_extra), **ctx)
        if not want and got_extra:
            res.viol("callback_called_without_extra", **ctx)
    if inp.content[inp.pos :] != trailing:
        res.viol("consumed_wrong_amount", unread=inp.content[inp.pos :], expected_unread=trailing, **ctx)
    if nested_first and nested_ret[:1] != [0]:
        res.viol("nested_vertical_diff_query_disturbed", returned=repr(nested_ret), **ctx)
    if out.data.count("\x1b[6n") != (2 if nested_first else 1) or out.data.replace("\x1b[6n", ""):
        res.viol("query_written_wrong", written=out.data[:60], **ctx)
    return res


def run_diff(case, res):
    from curtsies.window import CursorAwareWindow

    h, w = case["h"], case["w"]
    term = RefTerm(h, w)
    for i in range(case["history_lines"]):
        term.feed("h%d\r\n" % (i % 10))
    pty = Pty(h, w)
    try:
        out = OutStream(term, pty)
        inp = ScriptedIn(term, pty)
        cbmode = case.get("callback", "collect")
        got_extra = []

        def raising_cb(b):
            raise RuntimeError("the application's extra_bytes_callback failed")

        cb = None if cbmode == "none" else raising_cb if cbmode == "raises" else got_extra.append
        win = CursorAwareWindow(out_stream=out, in_stream=inp, extra_bytes_callback=cb)
        _, e = call(win.__enter__)
        if e is not None:
            res.viol("enter_raised", error=exc_str(e), case=case)
            return res
        recorded = None  # cursor row the window last recorded (after a render or a query)
        dirty = False  # content moved since the last query/render
        nq = 0
        for step, op in enumerate(case["steps"]):
            ctx = dict(step=step, case=case)
            if op["op"] == "render" and dirty:
                # the cursor has moved since the last render and the window has not been told yet (protocol: after a size
                # change call get_cursor_vertical_diff, then render): rendering now is outside the quantified histories
                res.label("render_with_unaccounted_movement_skipped")
                continue
            if op["op"] == "render":
                rows = ["r%d" % i for i in range(op["n"])]
                cur = (min(op.get("cursor_row", 0), max(op["n"] - 1, 0)), 0)
                _, e = call(lambda: win.render_to_terminal(rows, cur))
                if e is not None:
                    res.viol("render_raised", error=exc_str(e), **ctx)
                    return res
                recorded = term.r
            elif recorded is None:
                # movements/queries before the first render have no reference ("since the last render"): not in the domain
                res.label("before_first_render_skipped")
                continue
            elif op["op"] == "move":
                h = term.move_content(op["d"])
                pty.set_size(h, w)
                dirty = True
            elif op["op"] == "resize":
                h = term.resize_rows(op["h"])
                pty.set_size(h, w)
                dirty = True
                res.label("terminal_resized")
            else:
                nq += 1
                top_before = win.top_usable_row
                base = inp.nread
                nested = {"ret": None, "top_changed": False}
                during = op.get("during") or []

                def on_read(idx, base=base):
                    if idx - base > 3000:
                        # the query goes on reading report after report: it would never return
                        from ..refterm import StreamExhausted

                        raise StreamExhausted("get_cursor_vertical_diff keeps querying the cursor position (more than 3000 reads in one call)")
                    for ev in during:
                        if ev.get("done") or idx - base != ev["at"]:
                            continue
                        ev["done"] = True
                        if "d" in ev:
                            pty.set_size(term.move_content(ev["d"]), w)
                        if ev.get("nested"):
                            t0 = win.top_usable_row
                            nested["ret"] = win.get_cursor_vertical_diff()
                            nested["top_changed"] = nested["top_changed"] or win.top_usable_row != t0

                inp.on_read = on_read
                nlog = len(term.report_log)
                typed = op.get("typed_ahead") or ""
                inp.before = typed  # input typed ahead of the terminal's report
                ret, e = call(win.get_cursor_vertical_diff)
                inp.on_read = None
                for ev in during:
                    ev.pop("done", None)
                if typed and cbmode in ("none", "raises") and e is not None and isinstance(e, (ValueError, RuntimeError)) and not during:
                    # documented: without a callback the preceding bytes make the query raise ValueError (and a failing
                    # callback propagates).  Nothing was accounted; the movement is still outstanding for the next query.
                    res.label("query_failed_as_documented")
                    res.nontrivial = True
                    inp._cur = ""
                    dirty = True
                    continue
                if e is not None:
                    res.viol("query_raised", error=exc_str(e), **ctx)
                    return res
                final_row = term.last_report_row
                delta_top = win.top_usable_row - top_before
                if nested["ret"] is not None:
                    res.label("nested_call")
                    res.nontrivial = True
                    if nested["ret"] != 0 or nested["top_changed"]:
                        res.viol("nested_call_not_inert", returned=nested["ret"], **ctx)
                        return res
                if recorded is not None:
                    moved = final_row - recorded
                    if moved != 0 and (top_before <= 1 or top_before + moved <= 1):
                        res.label("clamping_in_play")
                        res.nontrivial = True
                    if moved != 0:
                        res.label("moved")
                    if delta_top + ret != moved:
                        res.viol("movement_not_conserved", delta_top=delta_top, returned=ret, observed_movement=moved,
                                 top_before=top_before, recorded=recorded, final_row=final_row, **ctx)
                        return res
                else:
                    # no render yet: the first report of this call is the reference
                    moved = final_row - term.report_log[nlog]
                    if delta_top + ret != moved:
                        res.viol("movement_not_conserved_first_query", delta_top=delta_top, returned=ret, observed_movement=moved, **ctx)
                        return res
                recorded = final_row
                dirty = bool(during)  # movement injected during the query may still be unaccounted
        res.evals = max(1, nq)
        call(lambda: win.__exit__(None, None, None))
    finally:
        pty.close()
    return res


def run_case(case):
    from ..refterm import StreamExhausted

    res = Res()
    if case["kind"] == "pos":
        return run_pos(case, res)
    try:
        return run_diff(case, res)
    except StreamExhausted as e:
        res.viol("blocks_reading_a_report_the_terminal_never_sent", detail=str(e), case=case)
        return res


FRAGS = ["a", "q", "\n", " ", "1", "23", ";", "R", "[", "\x1b", "\x1b[", "\x1b[12;", "\x1b[1;2", "\x1b[A", "\x1b[1;5C", "\x1bOP", "\x1b[6n",
         "\x1b[5;", "5;7", "é", "ÿ", "\x9b", "\x9b3", "12;34", "\x1b[12;5", "R\x1b["]


def strategy():
    extra = st.lists(st.sampled_from(FRAGS), max_size=6).map("".join)
    pos = st.fixed_dictionaries(
        {
            "kind": st.just("pos"),
            "row": st.one_of(st.integers(1, 60), st.integers(1, 10**6)),
            "col": st.one_of(st.integers(1, 200), st.integers(1, 10**6)),
            "csi": st.sampled_from(["7bit", "7bit", "8bit"]),
            "extra": st.one_of(st.just(""), extra, extra, extra,
                               st.tuples(extra, st.sampled_from([60, 200, 400]), extra).map(lambda t: t[0] + "k" * t[1] + t[2])),
            "trailing": st.one_of(st.just(""), st.lists(st.sampled_from(FRAGS + ["\x1b[3;4R"]), max_size=3).map("".join)),
            # "any number of times": mostly a few, but also a long run of failing reads before one succeeds and many
            # single failures spread over the characters of one query
            "errors": st.one_of(
                st.lists(st.integers(0, 30), max_size=3, unique=True),
                st.lists(st.integers(0, 30), max_size=3, unique=True),
                st.builds(lambda a, n: list(range(a, a + n)), st.integers(0, 20), st.integers(4, 70)),
                st.lists(st.integers(0, 80), min_size=4, max_size=45, unique=True),
            ),
            "callback": st.sampled_from([True, True, False]),
            "encoding": st.sampled_from(["utf-8", "latin-1"]),
            "nested_first": st.sampled_from([False, False, False, True]),
        }
    )
    at = st.one_of(st.integers(0, 8), st.integers(0, 24))
    during = st.lists(
        st.one_of(
            st.fixed_dictionaries({"at": at, "d": st.integers(-5, 5)}),
            st.fixed_dictionaries({"at": at, "nested": st.just(True)}),
            st.fixed_dictionaries({"at": at, "nested": st.just(True), "d": st.integers(-5, 5)}),
        ),
        max_size=4,
    )
    step = st.one_of(
        st.fixed_dictionaries({"op": st.just("render"), "n": st.one_of(st.integers(0, 5), st.integers(0, 45)), "cursor_row": st.one_of(st.integers(0, 4), st.integers(0, 44))}),
        st.fixed_dictionaries({"op": st.just("move"), "d": st.integers(-6, 6)}),
        st.fixed_dictionaries({"op": st.just("resize"), "h": st.one_of(st.integers(2, 8), st.sampled_from([24, 50, 10]))}),
        st.fixed_dictionaries({"op": st.just("query"), "during": during}),
        st.fixed_dictionaries({"op": st.just("query"), "during": st.just([])}),
        st.fixed_dictionaries({"op": st.just("query"), "during": st.just([]), "typed_ahead": st.sampled_from(["x", "ls\n", "\x1b[A", "12;3"])}),
    )
    diff = st.fixed_dictionaries(
        {
            "kind": st.just("diff"),
            "h": st.one_of(st.integers(2, 7), st.integers(2, 7), st.sampled_from([24, 50])),
            "w": st.just(8),
            "history_lines": st.one_of(st.integers(0, 9), st.integers(0, 60)),
            "callback": st.sampled_from(["collect", "collect", "none", "raises"]),
            "steps": st.lists(step, min_size=1, max_size=10).map(
                lambda steps: [{"op": "render", "n": 1 + len(steps) % 3, "cursor_row": len(steps) % 2}] + steps
            ),
        }
    )
    return st.one_of(pos, diff)


def campaign(col, tier, seed, shard, nshards):
    # long typed-ahead input (the library re-scans its buffer per character, so this is slow: a handful of cases only)
    longs = [1100] if tier == "quick" else [1100, 1500, 2100, 3000]
    for i, n_extra in enumerate(longs):
        if i % nshards != shard:
            continue
        case = {"kind": "pos", "row": 12, "col": 34, "csi": "7bit", "extra": "ab\x1b[1;2" + "k" * n_extra + "\n", "trailing": "zz",
                "errors": [3, 700], "callback": True, "encoding": "utf-8"}
        unknown = col.record(case, run_case(case), distinct=True, sample=False)
        if unknown:
            col.add_violation(case, unknown)
    n = 6000 if tier == "quick" else 320000
    hyp_campaign(col, strategy(), run_case, max(n // nshards, 100), seed * 100 + shard)
