"""C04 - FSArray region assignment composites exactly the assigned block."""
from __future__ import annotations

from hypothesis import strategies as st

from .. import gen
from ..cells import BLANK, build, cells, cells_of_desc, cells_of_str, show
from ..common import Res, call, exc_str, hyp_campaign
from .c14 import apply_model

PROP = "C04"
RULE = (
    "Hypothesis histories over a real FSArray (built by FSArray(h, w, *fmt) or fsarray(strings, width, *fmt); h<=5, w<=7, zero rows/"
    "columns included) next to a model grid of cells: a[r0:r1, c0:c1] = block and a[r, c] = block with explicit non-negative bounds "
    "(inside, straddling, beyond the height), block rows as str/FmtStr lists or an FSArray, row lengths below/equal/above the region "
    "width incl. empty, row count right or wrong; reads a[r0:r1, c0:c1], a[r], a[r0:r1]; fsarray() constructor cases. Oracle: valid "
    "block -> region shows block padded with blanks, everything else unchanged, height grows with blank rows, no row wider than the "
    "array; reads return what the cells show; wrong row count / row reaching past the width / into non-blank content beyond the "
    "region -> some exception and no cell changed. Non-trivial: assignment onto a row with content overlapping or beyond the "
    "region, or growth, in a history of >=2 steps."
    ' Block-row objects are re-used across assignments (the very same FmtStr/str object assigned again), rows may contain double-width/combining/tab characters (one character per cell), arrays up to 30 columns.'
    " Blocks also as tuples and as fsarray(rows, width) with a declared width beyond the longest row or equal to the region; constructor input as list/tuple/generator, width positional or keyword; ragged blocks onto rows filled to the right edge; 'repaint' steps (same region, same characters, other or no formatting); zero-column regions must still grow the array; len()/height/shape agree with the rows."
)
ASSUMPTIONS = [
    "neutral zones (statement silent/contradictory): a row longer than the region that only reaches blank cells inside the width; empty regions with non-empty blocks; a[r] = x; column bounds beyond the width",
    "height growth by blank rows on the error path is not a cell change",
]
SHARDS = {"quick": 4, "thorough": 16}


def row_value(spec, made=None):
    """made: list of (object, cells) created earlier in this history; {"ref": k} re-uses the k-th of them (the very same
    Python object), because callers do keep block rows around and assign them again"""
    if "ref" in spec and made:
        return made[-1 - (spec["ref"] % min(len(made), 4))]  # one of the most recently created objects
    if "ref" in spec:
        spec = {"str": ""}
    if "str" in spec:
        out = (spec["str"], cells_of_str(spec["str"]))
    else:
        out = (build(spec["desc"], "chunks"), cells_of_desc(spec["desc"]))
    if made is not None:
        made.append(out)
    return out


def observe(a):
    """-> (grid padded to width, problem)"""
    grid = []
    for i, row in enumerate(a.rows):
        c = cells(row)
        if len(c) > a.width:
            return None, f"row {i} is {len(c)} wide in an array of width {a.width}"
        grid.append(c + [BLANK] * (a.width - len(c)))
    if not (len(a) == a.height == len(a.rows)) or tuple(a.shape) != (len(a.rows), a.width):
        return None, f"len()={len(a)}, height={a.height}, shape={a.shape} for {len(a.rows)} rows of width {a.width}"
    return grid, None


def fmt_kwargs(fmt):
    return dict(fmt or {})


def run_case(case):
    from curtsies.formatstringarray import FSArray, fsarray

    res = Res()
    init = case["init"]
    fmt = fmt_kwargs(init.get("fmt"))
    pos_args = ()
    if init.get("fmt_positional") and set(fmt) <= {"fg", "bg", "bold"}:
        # the same formatting given as positional names ('red', 'on_blue', 'bold')
        from ..cells import BG_NAME, FG_NAME

        pos_args = tuple(FG_NAME[v] if k == "fg" else "on_" + BG_NAME[v] if k == "bg" else k for k, v in fmt.items() if v)
        fmt_model, fmt = fmt, {}
    else:
        fmt_model = fmt
    if init["kind"] == "FSArray":
        a, e = call(lambda: FSArray(init["h"], init["w"], *pos_args, **fmt))
        width = init["w"]
        model = [[BLANK] * width for _ in range(init["h"])]
        if e is not None:
            res.viol("constructor_raised", error=exc_str(e), init=init)
            return res
    else:
        vals = [row_value(s) for s in init["strings"]]
        maxlen = max([len(c) for _, c in vals], default=0)
        width = init["width"] if init.get("width") is not None else maxlen
        seq_kind = len(vals) % 3  # list / tuple / one-shot generator of strings
        strings_arg = [v for v, _ in vals] if seq_kind == 0 else tuple(v for v, _ in vals) if seq_kind == 1 else (v for v, _ in vals)
        a, e = call(lambda: fsarray(strings_arg, init.get("width"), *pos_args, **fmt) if len(vals) % 2 or pos_args else fsarray(strings_arg, width=init.get("width"), **fmt))
        res.label("fsarray_ctor")
        if init.get("width") is not None and maxlen > init["width"]:
            res.label("fsarray_too_narrow")
            if e is None:
                res.viol("fsarray_accepted_strings_wider_than_width", init=init)
            elif not isinstance(e, ValueError):
                res.viol("fsarray_too_narrow_raises_non_valueerror", error=exc_str(e), init=init)
            return res
        if e is not None:
            res.viol("fsarray_raised", error=exc_str(e), init=init)
            return res
        model = []
        for (v, c), spec in zip(vals, init["strings"]):
            if "str" in spec and fmt_model:
                c = apply_model(c, fmt_model)
            model.append(c + [BLANK] * (width - len(c)))
        res.nontrivial = len(vals) >= 2
    grid, prob = observe(a)
    if prob:
        res.viol("row_wider_than_array", detail=prob, init=init)
        return res
    if grid != model or a.shape != (len(model), width) or a.height != len(model) or a.width != width:
        res.viol("initial_array_wrong", init=init, got=[show(r) for r in grid], expected=[show(r) for r in model], shape=list(a.shape))
        return res

    nsteps = 0
    made = []
    for step, op in enumerate(case.get("ops", [])):
        nsteps += 1
        kind = op["op"]
        ctx = dict(step=step, op=op, init=init)
        if kind in ("set", "set_int"):
            if kind == "set":
                r0, r1, c0, c1 = op["r0"], op["r1"], op["c0"], op["c1"]
            else:
                r0, r1, c0, c1 = op["r"], op["r"] + 1, op["c"], op["c"] + 1
            if "block_str" in op:
                block, block_cells = op["block_str"], [cells_of_str(ch) for ch in op["block_str"]]
            else:
                vals = [row_value(s, made) for s in op["block"]]
                if any("ref" in s for s in op["block"]):
                    res.label("block_row_object_reused")
                block_cells = [c for _, c in vals]
                if op.get("as") == "fsarray":
                    bw = max([len(c) for c in block_cells], default=0)
                    # (declared width: the longest row, or more - an FSArray's rows are not padded to it, they keep their length)
                    declared = max(bw, c1 - c0) if op.get("declared_region") else bw + op.get("declared_extra", 0)
                    block, e = call(lambda: fsarray([v for v, _ in vals], declared))
                    if e is not None:
                        continue
                    # an FSArray block's rows are not padded: rows keep their own length
                else:
                    block = [v for v, _ in vals]
                    if op.get("as") == "tuple":
                        block = tuple(block)
            rw, rh = c1 - c0, r1 - r0
            before, _ = observe(a)
            h_before = len(before)
            # classify
            wrong_rows = len(block_cells) != rh
            must_raise = False
            neutral = False
            if rw == 0 or rh == 0:
                neutral = True  # empty region: statement silent for non-empty blocks; code returns early
                if rh > 0 and not wrong_rows and not any(block_cells):
                    # rows of zero cells, one empty block row each: an ordinary valid assignment that shows nothing - but a
                    # region reaching past the last row still grows the array with blank rows
                    neutral = False
                    res.label("zero_column_region")
            elif wrong_rows:
                must_raise = True
            else:
                for k, bc in enumerate(block_cells):
                    if len(bc) > rw:
                        r = r0 + k
                        existing = before[r] if r < h_before else [BLANK] * width
                        spill = range(c1, min(c0 + len(bc), width))
                        if c0 + len(bc) > width or any(existing[x] != BLANK for x in spill):
                            must_raise = True
                        else:
                            neutral = True
                    elif c0 + len(bc) > width:
                        must_raise = True
            if must_raise:
                res.label("must_raise")
            if neutral and not must_raise:
                res.label("neutral_zone")
            overlapping = any(
                r < h_before and any(before[r][x] != BLANK for x in range(c0, width)) for r in range(r0, min(r1, h_before))
            )
            grows = r1 > h_before and rh > 0
            if (overlapping or grows) and len(case.get("ops", [])) >= 2 and not neutral and not must_raise:
                res.nontrivial = True
                res.label("onto_content" if overlapping else "grows")

            def assign():
                if kind == "set" and op.get("rows_only") and c0 == 0 and c1 == width and not isinstance(block, str):
                    a[r0:r1] = block  # a row slice alone addresses the full width
                elif kind == "set":
                    a[r0:r1, c0:c1] = block
                else:
                    a[op["r"], op["c"]] = block

            _, e = call(assign)
            after, prob = observe(a)
            if prob:
                res.viol("row_wider_than_array", detail=prob, **ctx)
                return res
            if e is not None:
                if not must_raise and not neutral:
                    res.viol("valid_assignment_raised", error=exc_str(e), before=[show(r) for r in before], **ctx)
                    return res
                # no cell may change (blank rows may have been appended)
                if after[:h_before] != before or any(c != BLANK for r in after[h_before:] for c in r):
                    res.viol("failed_assignment_changed_cells", error=exc_str(e), before=[show(r) for r in before], after=[show(r) for r in after], **ctx)
                    return res
                model = after
                continue
            if must_raise:
                res.viol("invalid_block_accepted", before=[show(r) for r in before], after=[show(r) for r in after], **ctx)
                return res
            if neutral:
                model = after  # resynchronise; nothing is asserted about the neutral zone
                continue
            # valid block: expected grid
            exp = [list(r) for r in before]
            while len(exp) < r1:
                exp.append([BLANK] * width)
            for k, bc in enumerate(block_cells):
                row = exp[r0 + k]
                for x in range(c0, min(c1, width)):
                    row[x] = bc[x - c0] if x - c0 < len(bc) else BLANK
            if after != exp:
                res.viol("assignment_result_wrong", before=[show(r) for r in before], after=[show(r) for r in after],
                         expected=[show(r) for r in exp], **ctx)
                return res
            if a.shape != (len(exp), width):
                res.viol("shape_wrong", shape=list(a.shape), expected=[len(exp), width], **ctx)
                return res
            model = exp
        elif kind == "get":
            r0, r1, c0, c1 = op["r0"], op["r1"], op["c0"], op["c1"]
            out, e = call(lambda: a[r0:r1, c0:c1])
            grid, _ = observe(a)
            if e is not None:
                res.viol("region_read_raised", error=exc_str(e), **ctx)
                return res
            lo_r = 0 if r0 is None else r0
            hi_r = len(grid) if r1 is None else min(r1, len(grid))
            lo_c = 0 if c0 is None else c0
            hi_c = width if c1 is None else min(c1, width)
            exp_rows = [grid[r][lo_c:hi_c] for r in range(lo_r, hi_r)]
            got_rows = []
            for fs in out:
                c = cells(fs)
                got_rows.append(c + [BLANK] * (max(hi_c - lo_c, 0) - len(c)))
            if got_rows != exp_rows:
                res.viol("region_read_wrong", got=[show(r) for r in got_rows], expected=[show(r) for r in exp_rows], **ctx)
                return res
            res.label("read_region")
        elif kind == "get_row":
            grid, _ = observe(a)
            out, e = call(lambda: a[op["r"]])
            if op["r"] >= len(grid):
                if e is None:
                    res.viol("row_read_out_of_range_returned", **ctx)
                    return res
            elif e is not None:
                res.viol("row_read_raised", error=exc_str(e), **ctx)
                return res
            else:
                c = cells(out)
                if c + [BLANK] * (width - len(c)) != grid[op["r"]]:
                    res.viol("row_read_wrong", got=show(c), expected=show(grid[op["r"]]), **ctx)
                    return res
            res.label("read_row")
        elif kind == "get_rows":
            grid, _ = observe(a)
            out, e = call(lambda: a[op["r0"] : op["r1"]])
            if e is not None:
                res.viol("rows_read_raised", error=exc_str(e), **ctx)
                return res
            exp_rows = grid[op["r0"] : op["r1"]]
            got_rows = [cells(fs) + [BLANK] * (width - len(cells(fs))) for fs in out]
            if got_rows != exp_rows:
                res.viol("rows_read_wrong", got=[show(r) for r in got_rows], expected=[show(r) for r in exp_rows], **ctx)
                return res
            res.label("read_rows")
        # invariant after every step
        grid, prob = observe(a)
        if prob:
            res.viol("row_wider_than_array", detail=prob, **ctx)
            return res
        if grid != model:
            res.viol("array_changed_unexpectedly", got=[show(r) for r in grid], expected=[show(r) for r in model], **ctx)
            return res
    res.evals = max(1, nsteps)
    return res


FMT = st.sampled_from([{}, {}, {"fg": 31}, {"bg": 44}, {"bold": True, "fg": 32}])


@st.composite
def rowspec(draw, length):
    if draw(st.integers(0, 3)) == 0:
        return {"ref": draw(st.integers(0, 30))}
    # one character per cell - also for double-width / combining / tab characters (cells are characters, not columns)
    text = draw(st.text(alphabet="abcxyz ." + ("Ｅ́\t" if draw(st.integers(0, 4)) == 0 else ""), min_size=length, max_size=length))
    if draw(st.booleans()):
        return {"str": text}
    # split into 1-3 runs
    cuts = sorted(draw(st.lists(st.integers(0, length), max_size=2)))
    parts, prev = [], 0
    for c in cuts + [length]:
        parts.append([text[prev:c], draw(gen.atts(allow_false=False))])
        prev = c
    return {"desc": parts}


@st.composite
def history(draw):
    w = draw(st.one_of(st.integers(0, 7), st.integers(0, 7), st.sampled_from([12, 30, 300])))
    if draw(st.integers(0, 3)) == 0:
        n = draw(st.integers(0, 4))
        strings = [draw(rowspec(draw(st.integers(0, 7)))) for _ in range(n)]
        maxlen = max([len(s.get("str", "".join(t for t, _ in s.get("desc", [])))) for s in strings], default=0)
        width = draw(st.sampled_from([None, None, maxlen, maxlen + 1, max(maxlen - 1, 0), 7]))
        init = {"kind": "fsarray", "strings": strings, "width": width, "fmt": draw(FMT), "fmt_positional": draw(st.booleans())}
        w = width if width is not None else maxlen
        h = n
    else:
        h = draw(st.integers(0, 5))
        init = {"kind": "FSArray", "h": h, "w": w, "fmt": draw(FMT), "fmt_positional": draw(st.booleans())}
    ops = []
    for _ in range(draw(st.integers(0, 10))):
        k = draw(st.integers(0, 11))
        if k == 11:
            # repaint: an earlier assignment is made again to the same region with the same characters - as plain str, or in
            # other formatting ("the region shows the assigned rows": the old formatting must go)
            prev_sets = [o for o in ops if o["op"] == "set" and o.get("block") and all("ref" not in b for b in o["block"])]
            if not prev_sets:
                continue
            o = prev_sets[draw(st.integers(0, len(prev_sets) - 1))]
            how = draw(st.integers(0, 2))
            block = []
            for b in o["block"]:
                text = b["str"] if "str" in b else "".join(t for t, _ in b["desc"])
                block.append({"str": text} if how == 0 else {"desc": [[text, {}]]} if how == 1 else {"desc": [[text, draw(gen.atts(allow_false=False))]]})
            ops.append({"op": "set", "r0": o["r0"], "r1": o["r1"], "c0": o["c0"], "c1": o["c1"], "block": block, "as": "list"})
            continue
        if k == 10 and w >= 4:
            # macro: a row is filled, a short FmtStr row object goes into a wider region of it (the library pads it), then the
            # very same object is assigned again into a region exactly as wide as the object was
            r = draw(st.integers(0, h + 1))
            klen = draw(st.integers(1, w - 3))
            c0 = draw(st.integers(0, w - klen - 2))
            fill = {"str": "f" * w}
            short = {"desc": [[draw(st.text(alphabet="pq", min_size=klen, max_size=klen)), draw(gen.atts(allow_false=False))]]}
            ops.append({"op": "set", "r0": r, "r1": r + 1, "c0": 0, "c1": w, "block": [fill], "as": "list"})
            ops.append({"op": "set", "r0": r, "r1": r + 1, "c0": c0, "c1": c0 + klen + draw(st.integers(1, 2)), "block": [short], "as": "list"})
            r2 = draw(st.sampled_from([r, r, h + 1]))
            if r2 != r:
                ops.append({"op": "set", "r0": r2, "r1": r2 + 1, "c0": 0, "c1": w, "block": [{"str": "g" * w}], "as": "list"})
                ops.append({"op": "set", "r0": r2, "r1": r2 + 1, "c0": c0, "c1": c0 + klen, "block": [{"ref": 1}], "as": "list"})
            else:
                ops.append({"op": "set", "r0": r2, "r1": r2 + 1, "c0": c0, "c1": c0 + klen, "block": [{"ref": 0}], "as": "list"})
            h = max(h, r + 1, r2 + 1)
            continue
        if k <= 5:
            r0 = draw(st.integers(0, h + 2))
            r1 = draw(st.integers(r0, min(r0 + 3, h + 3)))
            c0 = draw(st.integers(0, w))
            c1 = draw(st.integers(c0, w))
            rw = c1 - c0
            nrows = r1 - r0 if draw(st.integers(0, 7)) else draw(st.integers(0, 4))
            block = []
            ragged = draw(st.integers(0, 3)) == 0  # rows no longer than the region, some shorter: the plain legal case
            for _ in range(nrows):
                ln = draw(st.sampled_from([rw, rw, rw, max(rw - 1, 0), 0, rw + 1, rw + 2, max(rw - 2, 0)] if not ragged else [rw, max(rw - 1, 0), max(rw - 2, 0), 0]))
                block.append(draw(rowspec(ln)))
            if ragged and w > 0 and r1 > r0:
                # ... onto rows that are filled to the right edge, so that what lies right of the region is visible
                ops.append({"op": "set", "r0": r0, "r1": r1, "c0": 0, "c1": w, "block": [{"str": "f" * w}] * (r1 - r0), "as": "list"})
            ops.append({"op": "set", "r0": r0, "r1": r1, "c0": c0, "c1": c1, "block": block,
                        "as": draw(st.sampled_from(["list", "list", "fsarray", "tuple"] if not ragged else ["fsarray", "fsarray", "list", "tuple"])),
                        "declared_extra": draw(st.sampled_from([0, 0, 1, 2, 5])), "declared_region": draw(st.booleans()), "rows_only": draw(st.booleans())})
            h = max(h, r1)
        elif k == 6:
            r, c = draw(st.integers(0, h + 2)), draw(st.integers(0, max(w - 1, 0)))
            if draw(st.booleans()):
                ops.append({"op": "set_int", "r": r, "c": c, "block": [draw(rowspec(draw(st.sampled_from([1, 1, 0, 2]))))]})
            else:
                ops.append({"op": "set_int", "r": r, "c": c, "block_str": draw(st.sampled_from(["x", "y", "xy", ""]))})
            h = max(h, r + 1)
        elif k == 7:
            r0 = draw(st.one_of(st.none(), st.integers(0, h + 1)))
            r1 = draw(st.one_of(st.none(), st.integers(r0 or 0, h + 2)))
            c0 = draw(st.one_of(st.none(), st.integers(0, w)))
            c1 = draw(st.one_of(st.none(), st.integers(c0 or 0, w)))
            ops.append({"op": "get", "r0": r0, "r1": r1, "c0": c0, "c1": c1})
        elif k == 8:
            ops.append({"op": "get_row", "r": draw(st.integers(0, h + 1))})
        else:
            r0 = draw(st.integers(0, h + 1))
            ops.append({"op": "get_rows", "r0": r0, "r1": draw(st.integers(r0, h + 2))})
    return {"init": init, "ops": ops}


def strategy():
    return history()


def campaign(col, tier, seed, shard, nshards):
    n = 2400 if tier == "quick" else 320000
    hyp_campaign(col, strategy(), run_case, max(n // nshards, 100), seed * 100 + shard)
