"""C13 - FmtStr values are immutable and their memoised views never go stale."""
from __future__ import annotations

from hypothesis import strategies as st

from .. import gen
from .. import sgr
from ..cells import build, cells, desc_of, show
from ..common import Res, call, exc_str, hyp_campaign

PROP = "C13"
RULE = (
    "Hypothesis straight-line programs over a pool of FmtStr values (1-3 generated seeds, results of every operation join the pool, "
    "operands picked by index): + (both sides, str and FmtStr), *, slicing, indexing, splice, append, join (pool members as separator "
    "and items), split, splitlines, ljust/rjust, copy_with_new_atts, new_with_atts_removed, copy_with_new_str, width_aware_slice, "
    "width_aware_splitlines (generator consumed fully or partially), delegated str methods, fmtstr() re-wrapping, copy(); observe "
    "rules touch any subset of str/len/.s/.width/repr/hash at any point; mutation attempts (f[i]=x and 8 dict mutators on a run's "
    "attributes). Oracle: snapshot (s, len, width-or-exception, str, repr, cells) taken on a fresh rebuild when a value enters the "
    "pool; after every step every pool value's observations equal its snapshot and those of a fresh rebuild; mutation attempts must "
    "raise and change nothing. Non-trivial: >=4 operations with a result sharing runs with an operand whose caches were filled."
    " Programs of up to 70 operations; repeat counts -2..3; unrelated 'noise' values with int-valued style flags are built and rendered in between; the deep observation also checks that the terminal string displays the run attributes and that hash == hash(str)."
    ' repr, runs and cells are read before and after the memoised views (terminal string, hash, length, width) are first computed and must agree; ljust/rjust with widths below, at and above the length, with and without fill character.'
)
ASSUMPTIONS = [
    "an operation that raises (e.g. width of a string with control characters) is not this property's concern; only value stability is",
]
SHARDS = {"quick": 4, "thorough": 16}
POOL_CAP = 32


def observe(v, deep=True):
    # repr, runs and cells are read before AND after the views that are memoised on first use (terminal string, hash,
    # length, width): computing those must not change what the value is
    before = (repr(v), tuple(cells(v)), tuple((c.s, tuple(sorted(c.atts.items()))) for c in v.chunks))
    w, e = call(lambda: v.width)
    ln, e2 = call(lambda: len(v))
    displays = True
    if deep and "\x1b" not in v.s and "\x9b" not in v.s:
        displays = sgr.interpret(str(v))[0] == cells(v)
    out = (v.s, ("exc", type(e2).__name__) if e2 is not None else ln, ("exc", type(e).__name__) if e is not None else w, str(v), repr(v),
           tuple(cells(v)), hash(v) == hash(str(v)), displays)
    after = (repr(v), tuple(cells(v)), tuple((c.s, tuple(sorted(c.atts.items()))) for c in v.chunks))
    return out + (before == after,)


def snapshot_of(v):
    fresh = build(desc_of(v), "chunks")
    return observe(fresh)


OPS = [
    "add", "add_str", "radd_str", "mul", "slice", "index", "splice", "splice_str", "append", "join", "split", "splitlines",
    "ljust", "rjust", "cwna", "removed", "cwns", "was", "wasl_full", "wasl_partial", "strmeth", "rewrap", "copy", "observe",
    "mutate", "observe_all", "noise", "setitem", "setslice",
]
STRMETHS = [("upper", ()), ("strip", ()), ("center", (7,)), ("replace", ("a", "bb")), ("title", ()), ("rsplit", (" ",)), ("lower", ())]
MUTATORS = ["setitem", "update", "delitem", "pop", "popitem", "clear", "setdefault", "ior", "fmtstr_setitem"]


def do_mutation(v, kind, k):
    """-> (raised?, description)"""
    if kind == "fmtstr_setitem":
        try:
            v[k % max(len(v), 1)] = "x"
        except Exception:
            return True
        return False
    if not v.chunks:
        return True
    atts = v.chunks[k % len(v.chunks)].atts
    key = next(iter(atts), "bold")
    try:
        if kind == "setitem":
            atts["fg"] = 32
        elif kind == "update":
            atts.update({"bold": True})
        elif kind == "delitem":
            del atts[key]
        elif kind == "pop":
            atts.pop(key, None)
        elif kind == "popitem":
            atts.popitem()
        elif kind == "clear":
            atts.clear()
        elif kind == "setdefault":
            atts.setdefault("underline", True)
        elif kind == "ior":
            atts |= {"invert": True}
    except Exception:
        return True
    return False


def run_case(case):
    from curtsies.formatstring import FmtStr, fmtstr

    res = Res()
    pool, snaps = [], []

    def add(v):
        if isinstance(v, FmtStr) and len(pool) < POOL_CAP:
            pool.append(v)
            snaps.append(snapshot_of(v))

    for d in case["seeds"]:
        add(build(d, "chunks"))
    if not pool:
        return res

    def check_all(step, op, deep=True):
        for i, (v, snap) in enumerate(zip(pool, snaps)):
            now, e = call(observe, v, deep)
            if e is not None:
                res.viol("observation_raised", step=step, op=op, pool_index=i, error=exc_str(e))
                return False
            if not now[-1]:
                res.viol("observing_the_value_changed_it", step=step, op=op, pool_index=i, detail="repr / runs / cells differ before and after str(), hash(), len(), width", case=case)
                return False
            if now != snap:
                which = [n for n, a, b in zip(("s", "len", "width", "str", "repr", "cells", "hash_is_hash_of_str", "str_displays_cells", "stable_under_observation"), now, snap) if a != b]
                res.viol("value_changed_or_stale_cache", step=step, op=op, pool_index=i, differs=which,
                         now=[repr(x)[:80] for x in now[:5]], was=[repr(x)[:80] for x in snap[:5]], case=case)
                return False
            if not deep:
                continue
            fresh, e = call(snapshot_of, v)
            if e is not None or fresh != snap:
                res.viol("fresh_rebuild_differs", step=step, op=op, pool_index=i, case=case)
                return False
        return True

    observed = set()
    nops = 0
    for step, op in enumerate(case["ops"]):
        name = op["op"]
        n = len(pool)
        i, j, k = op.get("i", 0) % n, op.get("j", 0) % n, op.get("k", 0)
        a, b = pool[i], pool[j]
        s = op.get("s", "x")
        la = len(a.s)
        out = None
        nops += 1
        try:
            if name == "add":
                out = a + b
            elif name == "add_str":
                out = a + s
            elif name == "radd_str":
                out = s + a
            elif name == "mul":
                out = a * ((k % 6) - 2)  # -2..3: negative counts behave like 0, as for str
            elif name == "slice":
                lo = (k % (la + 3)) - 1
                hi = ((k // 11) % (la + 3)) - 1
                out = a[lo:hi]
            elif name == "index":
                out = a[k % la] if la else None
            elif name == "splice":
                lo = k % (la + 1)
                out = a.splice(b, lo, min(la, lo + (k // 13) % 3))
            elif name == "splice_str":
                out = a.splice(s, k % (la + 1))
            elif name == "append":
                out = a.append(b)
            elif name == "setitem":
                out = a.setitem(k % la, s[:1] or "q") if la else None
            elif name == "setslice":
                lo = k % (la + 1)
                out = a.setslice_with_length(lo, min(la, lo + 2), s, la + 4)
            elif name == "join":
                items = [b, s, pool[k % n], b]
                # any iterable will do: list, tuple, one-shot generator, iterator
                out = a.join([items, tuple(items), (x for x in items), iter(items)][k % 4])
            elif name == "split":
                for p in a.split(s or " "):
                    add(p)
            elif name == "splitlines":
                for p in a.splitlines(bool(k % 2)):
                    add(p)
            elif name == "ljust":
                out = a.ljust(max(0, la - 2 + k % 6), *([s[:1]] if s and k % 3 != 1 else []))  # widths below, at and above the length
            elif name == "rjust":
                out = a.rjust(max(0, la - 2 + k % 6), *([s[:1]] if s and k % 3 != 1 else []))
            elif name == "cwna":
                out = a.copy_with_new_atts(**op.get("atts", {}))
            elif name == "removed":
                out = a.new_with_atts_removed(*op.get("names", ["fg"]))
            elif name == "cwns":
                out = a.copy_with_new_str(s)
            elif name == "was":
                out = a.width_aware_slice(slice(k % 5, (k % 5) + (k // 5) % 5))
            elif name == "wasl_full":
                for p in list(a.width_aware_splitlines(2 + k % 4)):
                    add(p)
            elif name == "wasl_partial":
                g = a.width_aware_splitlines(2 + k % 4)
                first = next(g, None)
                check_all(step, "wasl_partial(first yielded)")
                add(first)
                second = next(g, None)
                add(second)
            elif name == "strmeth":
                m, args = STRMETHS[k % len(STRMETHS)]
                r = getattr(a, m)(*args)
                for p in r if isinstance(r, list) else [r]:
                    add(p)
            elif name == "rewrap":
                out = fmtstr(a, **op.get("atts", {}))
            elif name == "copy":
                out = a.copy()
            elif name == "observe":
                bits = k % 64
                if bits & 1:
                    str(a)
                if bits & 2:
                    len(a)
                if bits & 4:
                    a.s
                if bits & 8:
                    call(lambda: a.width)
                if bits & 16:
                    repr(a)
                if bits & 32:
                    hash(a)
                a.divides
                call(lambda: a.shared_atts)
                observed.add(i)
                res.label("observe")
            elif name == "observe_all":
                for v in pool:
                    call(observe, v)
                observed.update(range(n))
            elif name == "noise":
                # an unrelated value, built and rendered but never judged: style flags spelled as ints (0/1 instead of
                # False/True).  It must not influence any value in the pool (process-wide caches keyed too coarsely would).
                noise_atts = {k: (int(v) if isinstance(v, bool) else v) for k, v in op.get("atts", {}).items()}
                for t, at in list(desc_of(a))[:3]:
                    nv = fmtstr(t, **{**{k: (int(v) if isinstance(v, bool) else v) for k, v in at.items()}, **noise_atts})
                    str(nv), len(nv), repr(nv), hash(nv)
                res.label("noise_value")
            elif name == "mutate":
                kind = MUTATORS[k % len(MUTATORS)]
                res.label("mutation_attempt")
                raised = do_mutation(a, kind, op.get("j", 0))
                if not raised:
                    res.viol("in_place_mutation_did_not_raise", mutator=kind, step=step, value=show(cells(a)), case=case)
                    res.evals = nops
                    return res
        except Exception as e:  # the operation itself failing is not this property's business
            res.label("op_raised")
        if out is not None:
            if isinstance(out, FmtStr) and i in observed and any(c is d for c in out.chunks for d in a.chunks):
                res.label("shares_runs_with_observed_operand")
                if len(case["ops"]) >= 4:
                    res.nontrivial = True
            add(out)
        if not check_all(step, name, deep=(step % 4 == 3 or step == len(case["ops"]) - 1)):
            break
    res.evals = nops
    return res


def strategy():
    seed = gen.desc(alphabet="ab \nＥ́0134m[", max_runs=3, max_len=4, min_runs=0)
    op = st.fixed_dictionaries(
        {
            "op": st.sampled_from(OPS + ["observe", "observe_all", "observe", "add", "slice", "join", "splice", "cwna"]),
            "i": st.integers(0, 30),
            "j": st.integers(0, 30),
            "k": st.integers(0, 500),
            "s": gen.text("ab \nＥ́", 0, 3),
            "atts": gen.atts(),
            "names": st.lists(st.sampled_from(["fg", "bg", "bold", "underline"]), max_size=2, unique=True),
        }
    )
    return st.fixed_dictionaries({"seeds": st.lists(seed, min_size=1, max_size=3), "ops": st.one_of(*([st.lists(op, min_size=3, max_size=30)] * 7 + [st.lists(op, min_size=40, max_size=70)]))})


def campaign(col, tier, seed, shard, nshards):
    n = 2000 if tier == "quick" else 64000
    hyp_campaign(col, strategy(), run_case, max(n // nshards, 100), seed * 100 + shard)
