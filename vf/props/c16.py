"""C16 - linesplit word-wraps without losing, reordering or restyling words."""
from __future__ import annotations

import itertools
import re
import sys

from hypothesis import strategies as st

from .. import gen
from ..cells import build_any, cells, cells_of_desc, cells_of_str, show
from ..common import HarnessError, Res, call, exc_str, hyp_campaign
from .c15 import items_of

PROP = "C16"
RULE = (
    "All strings of length <=5 (quick) / <=6 (thorough) over {a, b, space, \\n, U+3000, \\t} as plain str, as a single run and in every "
    "2-run layout (formatting changing inside words and inside whitespace runs; every fourth string also in colours differing from the usual ones only by value, every fourth with an empty run of other formatting at each cut), columns 1,2,3,5 enumerated; Hypothesis adds "
    "longer texts, 9 kinds of whitespace, 1-5 runs and columns 1..8. Oracle: greedy reference wrap on cell lists (words = maximal "
    "non-whitespace runs; a word joins the current line iff len+1+len(word) <= columns; longer words cut into columns-sized pieces) "
    "must equal the result line by line on word cells; each joining space is one ' ' whose attribute items lie between the "
    "intersection and the union of the replaced whitespace's cells; no line longer than columns or starting/ending with "
    "whitespace; text without words -> any result without characters, no exception. Non-trivial: >=2 lines with a joined pair, a "
    "word longer than columns, or whitespace with mixed formatting."
    ' Inputs also carry a history (derived from observed parents, divides index filled), words may contain double-width, combining and control characters (length counts characters), texts go up to 300 characters and columns up to 100.'
    ' A share of cases repeats every call after the caller edited the returned list (same object, then an equal fresh value); words of 3000-140000 characters (thousands of pieces).'
)
ASSUMPTIONS = [
    "whitespace = str.isspace, which agrees with re's \\s on every code point (checked over all of Unicode at start of the run)",
    "for text without any word both [] and [''] are accepted",
]
SHARDS = {"quick": 8, "thorough": 16}
FMTS = [{"fg": 31}, {"bg": 44, "bold": True}, {}]
# the same attribute *names* with other values: formatting is a matter of values, and whatever the library remembers from one
# gap or one call must not show up in another
FMTS_OTHER_VALUES = [{"fg": 34}, {"bg": 41, "bold": True}, {"fg": 32, "bg": 45}, {"fg": 31, "bg": 41}]


def reference(src, columns):
    """-> list of lines; line = list of ("w", cells) / ("s", whitespace cells)"""
    words, spaces, cur, ws = [], [], [], []
    for c in src:
        if c[0].isspace():
            if cur:
                words.append(cur)
                cur = []
            ws.append(c)
        else:
            if ws:
                if words:
                    spaces.append(ws)
                ws = []
            cur.append(c)
    if cur:
        words.append(cur)
    if not words:
        return [], words

    def pieces(w):
        return [w[i : i + columns] for i in range(0, len(w), columns)]

    lines = [[("w", p)] for p in pieces(words[0])]
    for w, sp in zip(words[1:], spaces):
        cur_len = sum(len(x[1]) if x[0] == "w" else 1 for x in lines[-1])
        if cur_len + 1 + len(w) <= columns:
            lines[-1] += [("s", sp), ("w", w)]
        else:
            lines.extend([("w", p)] for p in pieces(w))
    return lines, words


def check(res, value, src, columns, desc):
    from curtsies.formatstring import linesplit

    out, e = call(lambda: linesplit(value, columns))
    ref, words = reference(src, columns)
    ctx = dict(columns=columns, input=desc)
    if e is not None:
        res.viol("raised", error=exc_str(e), **ctx)
        return
    lines = [cells(l) for l in out]
    ctx["lines"] = [show(l) for l in lines][:8]
    if isinstance(out, list) and out:
        # the result belongs to the caller, who does with the list what callers do (drop shown lines, add a marker line,
        # reverse it); later calls must not see any of that
        out.reverse()
        out.append("-- more --")
        del out[:1]
    if not words:
        res.label("no_words")
        if any(len(l) for l in lines):
            res.viol("characters_from_nowhere", **ctx)
        return
    for i, l in enumerate(lines):
        if len(l) > columns:
            res.viol("line_too_long", index=i, **ctx)
            return
        if l and (l[0][0].isspace() or l[-1][0].isspace()):
            res.viol("line_starts_or_ends_with_whitespace", index=i, **ctx)
            return
    if len(lines) != len(ref):
        res.viol("line_count_differs", got=len(lines), expected=len(ref), **ctx)
        return
    joined = False
    for i, (l, r) in enumerate(zip(lines, ref)):
        pos = 0
        for kind, cs in r:
            if kind == "w":
                if l[pos : pos + len(cs)] != cs:
                    res.viol("word_cells_differ", index=i, expected=show(cs), **ctx)
                    return
                pos += len(cs)
            else:
                joined = True
                if pos >= len(l) or l[pos][0] != " ":
                    res.viol("missing_single_space", index=i, **ctx)
                    return
                it = items_of(l[pos])
                inter = set.intersection(*[items_of(c) for c in cs])
                union = set.union(*[items_of(c) for c in cs])
                if len({c[1:] for c in cs}) > 1:
                    res.label("mixed_whitespace_formatting")
                    res.nontrivial = True
                if not (inter <= it <= union):
                    res.viol("space_formatting_wrong", index=i, got=sorted(it), intersection=sorted(inter), union=sorted(union), **ctx)
                    return
                pos += 1
        if pos != len(l):
            res.viol("extra_characters_on_line", index=i, **ctx)
            return
    if len(lines) >= 2 and joined:
        res.label("multi_line_with_join")
        res.nontrivial = True
    if any(len(w) > columns for w in words):
        res.label("word_longer_than_line")
        res.nontrivial = True


def run_case(case):
    res = Res()
    if "str" in case:
        value, src, desc = case["str"], cells_of_str(case["str"]), case["str"]
        res.label("plain_str")
    else:
        value, src, desc = build_any(case["desc"], case.get("build", "chunks"), case.get("obs", 0)), cells_of_desc(case["desc"]), case["desc"]
        if case.get("obs") or case.get("build", "chunks") != "chunks":
            res.label("value_with_history")
    cols = case.get("columns") or [1, 2, 3, 5]
    res.evals = len(cols)
    if case.get("noise"):
        # an earlier call that fails half-way (a run with an attribute name the library rejects) - unjudged; it must not
        # influence the calls that follow
        from curtsies.formatstring import Chunk, FmtStr, linesplit

        res.label("failing_call_before")
        try:
            linesplit(FmtStr(Chunk("left"), Chunk(" ", {"no_such_attribute": True}), Chunk("right")), 20)
        except Exception:
            pass
    for c in cols:
        check(res, value, src, c, desc)
        if len(res.violations) > 3:
            break
    if case.get("again") and not res.violations:
        # the same questions asked again - of the same object, then of an equal value built afresh
        res.label("same_call_repeated_after_caller_edited_the_result")
        fresh = value if isinstance(value, str) else build_any(case["desc"], "chunks", 0)
        for v in (value, fresh):
            for c in cols:
                check(res, v, src, c, desc)
            res.evals += len(cols)
            if res.violations:
                break
    if not isinstance(value, str) and cells(value) != src:
        res.viol("operand_changed", input=desc)
    return res


WS = " \t\n\r\x0b\x1c\xa0  "
SYMS = ["a", "b", " ", "\n", "　", "\t"]


def strategy():
    alpha = "abcdefg" + WS + "   " + "世Ｅ́\x7f"  # words may contain double-width, combining and control characters: length counts characters
    run = st.tuples(gen.text(alpha, 0, 8), st.sampled_from(FMTS + [{"underline": True}, {"fg": 31, "bg": 44}] + FMTS_OTHER_VALUES)).map(list)
    cols = st.lists(st.one_of(st.integers(1, 8), st.integers(1, 8), st.sampled_from([10, 16, 20, 40, 79, 80, 100, 255, 256, 300])), min_size=1, max_size=3, unique=True)
    long_run = st.tuples(gen.text(alpha, 20, 160), st.sampled_from(FMTS + FMTS_OTHER_VALUES)).map(list)
    return st.one_of(
        st.fixed_dictionaries({"desc": st.lists(run, min_size=0, max_size=5), "columns": cols, "build": gen.BUILDS, "obs": gen.OBS, "again": st.booleans()}),
        st.fixed_dictionaries({"desc": st.lists(run, min_size=0, max_size=5), "columns": cols, "build": gen.BUILDS, "obs": gen.OBS}),
        st.fixed_dictionaries({"str": gen.text(alpha, 0, 16), "columns": cols, "noise": st.booleans(), "again": st.booleans()}),
        st.fixed_dictionaries({"desc": st.lists(long_run, min_size=1, max_size=3), "columns": cols}),
        st.fixed_dictionaries({"str": gen.text(alpha, 40, 300), "columns": cols}),
        st.fixed_dictionaries({"str": gen.text("abcdefg ", 300, 700), "columns": cols}),
    )


def verify_whitespace_definition():
    pat = re.compile(r"\s")
    for cp in range(sys.maxunicode + 1):
        ch = chr(cp)
        if bool(pat.match(ch)) != ch.isspace():
            raise HarnessError(f"re \\s and str.isspace disagree on U+{cp:04X}")


def campaign(col, tier, seed, shard, nshards):
    if shard == 0:
        verify_whitespace_definition()
    maxlen = 5 if tier == "quick" else 6
    i = 0
    for L in range(0, maxlen + 1):
        for tup in itertools.product(SYMS, repeat=L):
            s = "".join(tup)
            i += 1
            if i % nshards != shard:
                continue
            variants = [{"str": s}, {"desc": [[s, FMTS[i % 3]]]}]
            for k in range(1, L):
                variants.append({"desc": [[s[:k], FMTS[(i + k) % 3]], [s[k:], FMTS[(i + k + 1) % 3]]]})
            if i % 4 == 2:
                # an empty run of another formatting at every cut, the same formatting on both sides of it
                for k in range(1, L):
                    variants.append({"desc": [[s[:k], FMTS[i % 2]], ["", FMTS[2 - (i % 2) * 1]], [s[k:], FMTS[i % 2]]]})
            if i % 4 == 1:
                # every fourth string also in colours that differ from the usual ones only by value
                variants.append({"desc": [[s, FMTS_OTHER_VALUES[i % 4]]]})
                for k in range(1, L):
                    variants.append({"desc": [[s[:k], FMTS_OTHER_VALUES[(i + k) % 4]], [s[k:], FMTS[(i + k) % 3]]]})
            for vi, case in enumerate(variants):
                if (i + vi) % 5 == 0:
                    case["again"] = True
                res = run_case(case)
                unknown = col.record(case, res, distinct=True, sample=(i % 3001 == 5))
                if unknown:
                    col.add_violation(case, unknown)
    col.exhaustive[f"strings_len_le_{maxlen}_over_6_symbols_x_layouts_x_4_widths"] = True
    # words far longer than a line: thousands of pieces (quick: one size per shard)
    giants = [{"str": "x" * 5000, "columns": [2]}, {"str": "ab " + "y" * 3100 + " c", "columns": [1]},
              {"desc": [["q" * 1500, {"fg": 31}], ["r" * 1500, {"bold": True}], [" z", {}]], "columns": [1, 3]},
              {"str": "w" * 140000, "columns": [80]}]
    for gi, case in enumerate(giants):
        if gi % nshards == shard:
            unknown = col.record(case, run_case(case), distinct=True, sample=False)
            if unknown:
                col.add_violation(case, unknown)
    n = 3200 if tier == "quick" else 600000
    hyp_campaign(col, strategy(), run_case, max(n // nshards, 100), seed * 100 + shard)
