"""C14 - Applying or removing formatting touches exactly the named attributes."""
from __future__ import annotations

import itertools

from hypothesis import strategies as st

from .. import gen, sgr
from ..cells import BG_NAME, FG_NAME, STYLES, build, cells, observe, cells_of_desc, cells_of_str, fmt_of_atts, show
from ..common import Res, call, exc_str, hyp_campaign

PROP = "C14"
RULE = (
    "Hypothesis: base (str or FmtStr description, any layout) x 1-3 layers, each a specification (subset of fg/bg/6 styles with "
    "values incl. False) in a generated spelling (positional names, fg='red', fg=31, bg=..., style=..., bold=True/False, nested "
    "fmtfuncs in generated order, copy_with_new_atts), then optional new_with_atts_removed / copy_with_new_str / shared_atts; plus "
    "the complete 23-name fmtfuncs table, all 5184 truthy attribute sets x 4 spellings (thorough: x all spellings), and a catalogue "
    "of invalid specifications. Oracle: per-character attribute overwrite model on cells; all spellings give identical cells and "
    "str(); removal deletes exactly the named; invalid -> ValueError only; shared_atts subset of what every character has, read a second time after the caller edited the mapping it was handed. "
    "Non-trivial: >=2 layers touching the same attribute kind, a multi-run base, or a False override."
    ' Bases are observed (all caches filled) before each layer and the terminal string of every result is judged by the SGR interpreter as well as the run attributes.'
    ' The invalid catalogue includes mis-typed names and values (tuples, lists, dicts, sets, bytes, floats, booleans); bases with runs made only of zero-width characters; replacement text carrying escape sequences for copy_with_new_str.'
)
ASSUMPTIONS = [
    "wrong-case names ('RED', 'on_RED'): the code visibly intends case-insensitivity, so either working (as the lowered name) or ValueError is accepted, nothing else",
    "copy_with_new_str is only judged on uniformly formatted strings (the statement says so): all characters share one formatting and no empty run carries an attribute the characters lack",
    "shared_atts on a FmtStr with no runs at all is not asserted",
]
SHARDS = {"quick": 4, "thorough": 16}
KINDS = ("fg", "bg") + STYLES


def apply_model(cs, spec):
    out = []
    for ch, fg, bg, styles in cs:
        st_ = set(styles)
        for k, v in spec.items():
            if k == "fg":
                fg = v
            elif k == "bg":
                bg = v
            elif v:
                st_.add(k)
            else:
                st_.discard(k)
        out.append((ch, fg, bg, tuple(s for s in STYLES if s in st_)))
    return out


def remove_model(cs, names):
    out = []
    for ch, fg, bg, styles in cs:
        out.append((ch, None if "fg" in names else fg, None if "bg" in names else bg, tuple(s for s in styles if s not in names)))
    return out


def apply_real(x, layer):
    from curtsies.formatstring import fmtstr
    from curtsies import fmtfuncs

    spec, via = layer["spec"], layer.get("via", "fmtstr")
    keys = [k for k in layer.get("order", sorted(spec)) if k in spec] or sorted(spec)
    if via == "cwna":
        base = x if not isinstance(x, str) else fmtstr(x)
        return base.copy_with_new_atts(**spec)
    if via == "funcs":
        f = x
        falses = {k: v for k, v in spec.items() if k in STYLES and not v}
        if falses or not keys:
            f = fmtstr(f, **falses)
        for k in keys:
            v = spec[k]
            if k == "fg":
                f = getattr(fmtfuncs, FG_NAME[v])(f)
            elif k == "bg":
                f = getattr(fmtfuncs, "on_" + BG_NAME[v])(f)
            elif v:
                f = getattr(fmtfuncs, k)(f)
        return f
    how = layer.get("how", {})
    args, kw, used_style = [], {}, False
    for k in keys:
        v = spec[k]
        h = how.get(k, "kwnum")
        name = FG_NAME[v] if k == "fg" else "on_" + BG_NAME[v] if k == "bg" else k
        if k in STYLES and not v:
            kw[k] = False
        elif h == "pos":
            args.append(name)
        elif h == "style" and not used_style:
            kw["style"] = name
            used_style = True
        elif h == "kwname" and k in ("fg", "bg"):
            kw[k] = FG_NAME[v] if k == "fg" else BG_NAME[v]
        else:
            kw[k] = v
    return fmtstr(x, *args, **kw)


def run_case(case):
    res = Res()
    from curtsies.formatstring import fmtstr

    kind = case.get("kind", "layers")
    if kind == "invalid":
        return run_invalid(case, res)
    if kind == "fmtfunc":
        return run_fmtfunc(case, res)
    if "base_str" in case:
        x = xr = case["base_str"]
        model = cells_of_str(x)
    else:
        x = build(case["base"], "chunks")
        xr = build(case["base"], "chunks")
        model = cells_of_desc(case["base"])
        fm = {tuple(sorted((k, v) for k, v in a.items() if v)) for t, a in case["base"] if t}
        if len(fm) >= 2:
            res.label("multi_run_base")
            res.nontrivial = True
    touched = []
    for layer in case["layers"]:
        spec = layer["spec"]
        if any(v is False for v in spec.values()):
            res.label("false_override")
            res.nontrivial = True
        if any(k in t for t in touched for k in spec):
            res.label("same_kind_twice")
            res.nontrivial = True
        touched.append(set(spec))
        res.label("via_" + layer.get("via", "fmtstr"))
        if not isinstance(x, str) and case.get("obs"):
            observe(x, case["obs"])
        y, e = call(apply_real, x, layer)
        if e is not None:
            res.viol("apply_raised", layer=layer, error=exc_str(e), case=case)
            return res
        yr, e = call(apply_real, xr, {"spec": spec, "via": "fmtstr"})
        if e is not None:
            res.viol("reference_spelling_raised", layer=layer, error=exc_str(e))
            return res
        model = apply_model(model, spec)
        if cells(y) != model:
            res.viol("cells_wrong_after_layer", layer=layer, got=show(cells(y)), expected=show(model), case=case)
            return res
        if "\x1b" not in "".join(c[0] for c in model):
            shown, gstate, problems = sgr.interpret(str(y))
            if shown != model or problems or not gstate.is_default():
                res.viol("terminal_string_disagrees_with_attributes", layer=layer, shown=show(shown), expected=show(model), case=case)
                return res
        if cells(yr) != cells(y) or str(yr) != str(y):
            res.viol("spellings_disagree", layer=layer, got=str(y)[:200], reference=str(yr)[:200], case=case)
            return res
        x, xr = y, yr
    if isinstance(x, str):
        x = fmtstr(x)
    names = case.get("remove")
    if names is not None:
        res.label("removal")
        y, e = call(lambda: x.new_with_atts_removed(*names))
        if e is not None:
            res.viol("remove_raised", names=names, error=exc_str(e))
        elif cells(y) != remove_model(model, set(names)):
            res.viol("remove_wrong", names=names, got=show(cells(y)), expected=show(remove_model(model, set(names))), case=case)
        if cells(x) != model:
            res.viol("operand_changed_by_remove", case=case)
    # "uniformly formatted": every run - empty ones included - carries the same formatting (the statement does
    # not say what an empty run with different attributes contributes, so such bases are not judged)
    # (an empty run whose attributes are all among those of the characters cannot contradict them and is allowed)
    char_items = set()
    if model:
        fg, bg, sty = model[0][1:]
        char_items = ({("fg", fg)} if fg else set()) | ({("bg", bg)} if bg else set()) | {(s_, True) for s_ in sty}
    char_val = dict(char_items)
    empties_ok = all((v or None) == (char_val.get(k) or None) for c in x.chunks if len(c.s) == 0 for k, v in c.atts.items())
    if case.get("new_str") is not None and model and empties_ok and len({c[1:] for c in model}) == 1:
        res.label("copy_with_new_str_uniform")
        y, e = call(lambda: x.copy_with_new_str(case["new_str"]))
        exp = [(ch,) + model[0][1:] for ch in case["new_str"]]
        if e is not None:
            res.viol("copy_with_new_str_raised", error=exc_str(e))
        elif cells(y) != exp:
            res.viol("copy_with_new_str_wrong", got=show(cells(y)), expected=show(exp), case=case)
    if x.chunks:
        # read twice; in between the caller edits the mapping it was handed (it is the caller's to edit:
        # the unchanged library builds a new dict per read) - the second report is judged like the first
        for reading in ("first", "after_caller_edited_result"):
            held = []
            sa, e = call(lambda: (held.append(x.shared_atts), dict(held[0]))[1])
            if e is not None:
                res.viol("shared_atts_raised", error=exc_str(e), reading=reading, case=case)
                break
            bad = False
            for k, v in sa.items():
                for c in model:
                    have = c[1] if k == "fg" else c[2] if k == "bg" else (k in c[3])
                    ok = (have == v) if k in ("fg", "bg") else (bool(have) == bool(v))
                    if not ok:
                        res.viol("shared_atts_reports_unshared", att=k, value=v, reading=reading, case=case)
                        bad = True
                        break
            if bad:
                break
            if reading == "first":
                res.label("shared_atts_result_edited_by_caller")
                try:
                    m = held[0]
                    first = model[0] if model else None
                    m["fg"] = 31 if not first or first[1] != 31 else 32
                    for s_ in STYLES:
                        if not model or any(s_ not in c[3] for c in model):
                            m[s_] = True
                    m.pop("bg", None)
                except Exception:
                    pass  # an immutable mapping is fine
    return res


def run_fmtfunc(case, res):
    from curtsies import fmtfuncs

    name = case["name"]
    exp_spec = {}
    if name in FG_NAME.values():
        exp_spec = {"fg": {v: k for k, v in FG_NAME.items()}[name]}
    elif name.startswith("on_"):
        exp_spec = {"bg": {v: k for k, v in BG_NAME.items()}["black" if name == "on_dark" else name[3:]]}
    elif name in STYLES:
        exp_spec = {name: True}
    base = build(case["base"], "chunks") if "base" in case else case["base_str"]
    model = cells_of_desc(case["base"]) if "base" in case else cells_of_str(case["base_str"])
    y, e = call(lambda: getattr(fmtfuncs, name)(base))
    res.label("fmtfunc")
    if e is not None:
        res.viol("fmtfunc_raised", name=name, error=exc_str(e))
    elif cells(y) != apply_model(model, exp_spec):
        res.viol("fmtfunc_wrong", name=name, got=show(cells(y)), expected=show(apply_model(model, exp_spec)))
    res.nontrivial = "base" in case
    return res


INVALID = [
    ("unknown_positional", ["x", "reddish"], {}),
    ("unknown_positional_on", ["x", "on_reddish"], {}),
    ("unknown_keyword", ["x"], {"foo": True}),
    ("unknown_keyword_color", ["x"], {"color": "red"}),
    ("nonstr_positional_int", ["x", 31], {}),
    ("nonstr_positional_none", ["x", None], {}),
    ("fg_twice_pos_kw", ["x", "red"], {"fg": "blue"}),
    ("fg_twice_two_pos", ["x", "red", "blue"], {}),
    ("fg_twice_style_pos", ["x", "blue"], {"style": "red"}),
    ("bg_twice_pos_kw", ["x", "on_red"], {"bg": "blue"}),
    ("bg_twice_two_pos", ["x", "on_red", "on_blue"], {}),
    ("fg_is_bg_number", ["x"], {"fg": 44}),
    ("bg_is_fg_number", ["x"], {"bg": 31}),
    ("fg_out_of_range_38", ["x"], {"fg": 38}),
    ("fg_out_of_range_29", ["x"], {"fg": 29}),
    ("fg_zero", ["x"], {"fg": 0}),
    ("bg_out_of_range_48", ["x"], {"bg": 48}),
    ("bg_out_of_range_39", ["x"], {"bg": 39}),
    ("fg_unknown_string", ["x"], {"fg": "reddish"}),
    ("bg_unknown_string", ["x"], {"bg": "on_red"}),
    ("fg_none", ["x"], {"fg": None}),
    ("first_arg_int", [5], {}),
    ("first_arg_none", [None], {}),
    ("first_arg_bytes", [b"x"], {}),
    ("first_arg_list", [["x"]], {}),
    ("style_unknown", ["x"], {"style": "shiny"}),
    ("style_empty_string", ["x"], {"style": ""}),
    ("style_none", ["x"], {"style": None}),
    ("style_zero", ["x"], {"style": 0}),
    ("style_false", ["x"], {"style": False}),
    ("style_empty_with_colour", ["x"], {"style": "", "fg": "red"}),
    ("positional_empty_string", ["x", ""], {}),
    ("style_nonstr", ["x"], {"style": 1}),
    # mis-typed names and values: containers, bytes, floats, booleans where a name or a colour is expected
    ("nonstr_positional_tuple2", ["x", ("red", "bold")], {}),
    ("nonstr_positional_tuple0", ["x", ()], {}),
    ("nonstr_positional_tuple1", ["x", ("red",)], {}),
    ("nonstr_positional_list", ["x", ["red"]], {}),
    ("nonstr_positional_dict", ["x", {"fg": "red"}], {}),
    ("nonstr_positional_bytes", ["x", b"red"], {}),
    ("nonstr_positional_true", ["x", True], {}),
    ("nonstr_positional_float", ["x", 1.5], {}),
    ("style_tuple", ["x"], {"style": ("red", "bold")}),
    ("style_list", ["x"], {"style": ["red"]}),
    ("style_bytes", ["x"], {"style": b"red"}),
    ("fg_tuple", ["x"], {"fg": ("red",)}),
    ("fg_list", ["x"], {"fg": ["red"]}),
    ("fg_dict", ["x"], {"fg": {}}),
    ("fg_set", ["x"], {"fg": {"red"}}),
    ("fg_bytes", ["x"], {"fg": b"red"}),
    ("fg_float", ["x"], {"fg": 31.5}),
    ("bg_list", ["x"], {"bg": ["blue"]}),
    ("bg_dict", ["x"], {"bg": {"blue": 1}}),
    ("bg_tuple", ["x"], {"bg": ("blue",)}),
]
# wrong-case names: working like the lowered name, or ValueError - nothing else
WRONG_CASE = [
    ("RED", {"fg": 31}), ("Red", {"fg": 31}), ("on_RED", {"bg": 41}), ("ON_RED", {"bg": 41}), ("On_Blue", {"bg": 44}),
    ("Bold", {"bold": True}), ("UNDERLINE", {"underline": True}), ("GRAY", {"fg": 37}),
]


def run_invalid(case, res):
    from curtsies.formatstring import fmtstr

    res.label("invalid_spec")
    if "wrong_case" in case:
        name, spec = WRONG_CASE[case["wrong_case"]]
        res.label("wrong_case")
        for how in ("pos", "style"):
            y, e = call(lambda: fmtstr("x", name) if how == "pos" else fmtstr("x", style=name))
            if e is not None:
                if not isinstance(e, ValueError):
                    res.viol("wrong_case_name_raises_non_valueerror", name=name, how=how, error=exc_str(e))
            elif cells(y) != apply_model(cells_of_str("x"), spec):
                res.viol("wrong_case_name_wrong_result", name=name, how=how, got=show(cells(y)))
        res.nontrivial = True
        return res
    label, args, kw = INVALID[case["invalid"]]
    y, e = call(lambda: fmtstr(*args, **dict(kw)))
    if e is None:
        res.viol("invalid_spec_accepted", which=label, result=show(cells(y)))
    elif not isinstance(e, ValueError):
        res.viol("invalid_spec_raises_non_valueerror", which=label, error=exc_str(e))
    res.nontrivial = True
    return res


def spec_strategy():
    def mk(fg, bg, styles):
        d = {}
        if fg:
            d["fg"] = fg
        if bg:
            d["bg"] = bg
        for n, v in zip(STYLES, styles):
            if v is not None:
                d[n] = v
        return d

    return st.builds(
        mk,
        st.one_of(st.none(), st.sampled_from(gen.FGS)),
        st.one_of(st.none(), st.sampled_from(gen.BGS)),
        st.tuples(*[st.sampled_from([None, None, True, False]) for _ in STYLES]),
    )


def layer_strategy():
    return st.fixed_dictionaries(
        {
            "spec": spec_strategy(),
            "via": st.sampled_from(["fmtstr", "fmtstr", "funcs", "cwna"]),
            "how": st.fixed_dictionaries({k: st.sampled_from(["pos", "kwnum", "kwname", "style"]) for k in KINDS}),
            "order": st.permutations(list(KINDS)),
        }
    )


def strategy():
    def uniform_with_empties(t):
        fmt, texts, empt = t
        runs = []
        for i, tx in enumerate(texts):
            if i in empt:
                runs.append(["", {} if (i + len(texts)) % 2 else {k: v for k, v in list(fmt.items())[:1]}])
            runs.append([tx, dict(fmt)])
        return runs

    uniform = st.tuples(gen.atts(allow_false=False), st.lists(gen.text("abc", 1, 3), min_size=1, max_size=3),
                        st.sets(st.integers(0, 2), max_size=2)).map(uniform_with_empties)
    base = st.one_of(
        st.fixed_dictionaries({"base": uniform}),
        st.fixed_dictionaries({"base": gen.desc(alphabet="31m[4;0", max_runs=3, max_len=3)}),
        st.fixed_dictionaries({"base": gen.desc_sized(alphabet="abc \n", max_runs=4, max_len=3)}),
        st.fixed_dictionaries({"base_str": gen.text("abc \n", 0, 4)}),
        # characters that take no column or two (runs made only of combining marks or zero-width spaces included)
        st.fixed_dictionaries({"base": gen.desc(alphabet="ab\u0301\u0324\u200b\ufe0f\u4e2d\U0001f600", max_runs=4, max_len=2)}),
    )
    rest = st.fixed_dictionaries(
        {
            "layers": st.lists(layer_strategy(), min_size=1, max_size=3),
            "remove": st.one_of(st.none(), st.lists(st.sampled_from(list(KINDS)), max_size=3, unique=True)),
            "new_str": st.one_of(st.none(), gen.text("xyz", 0, 3), gen.plain_str(4)),
            "obs": gen.OBS,
        }
    )
    return st.tuples(base, rest).map(lambda t: {**t[0], **t[1]})


FMTFUNC_NAMES = list(FG_NAME.values()) + ["on_" + n for n in BG_NAME.values()] + ["on_dark"] + list(STYLES) + ["plain"]
SPELLINGS = [
    {"via": "fmtstr", "how": {k: "pos" for k in KINDS}},
    {"via": "fmtstr", "how": {k: "kwname" for k in KINDS}},
    {"via": "funcs", "order": list(KINDS)},
    {"via": "funcs", "order": list(reversed(KINDS))},
    {"via": "cwna"},
    {"via": "fmtstr", "how": {**{k: "pos" for k in KINDS}, "fg": "style"}},
    {"via": "fmtstr", "how": {**{k: "kwnum" for k in KINDS}, "bg": "style"}},
]


def campaign(col, tier, seed, shard, nshards):
    def go(case, sample=False):
        unknown = col.record(case, run_case(case), distinct=True, sample=sample)
        if unknown:
            col.add_violation(case, unknown)

    if shard == 0:
        for i in range(len(INVALID)):
            go({"kind": "invalid", "invalid": i}, sample=(i == 0))
        for i in range(len(WRONG_CASE)):
            go({"kind": "invalid", "wrong_case": i}, sample=(i == 0))
        for n in FMTFUNC_NAMES:
            go({"kind": "fmtfunc", "name": n, "base_str": "ab"})
            go({"kind": "fmtfunc", "name": n, "base": [["a", {"fg": 32, "bold": True}], ["b", {"bg": 45}]]}, sample=(n == "red"))
        col.exhaustive["fmtfuncs_table_and_invalid_catalogue"] = True
    idx = 0
    for a in gen.all_attribute_dicts(with_false=False):
        idx += 1
        if idx % nshards != shard:
            continue
        sps = SPELLINGS if tier == "thorough" else [SPELLINGS[(idx + k) % len(SPELLINGS)] for k in range(2)]
        for sp in sps:
            go({"base": [["a", {"fg": 34, "blink": True}], ["b", {}]], "layers": [{"spec": a, **sp}]}, sample=(idx % 2503 == 1))
    col.exhaustive["truthy_attribute_sets_5184_x_spellings"] = True
    n = 4000 if tier == "quick" else 480000
    hyp_campaign(col, strategy(), run_case, max(n // nshards, 100), seed * 100 + shard)
