"""C07 - CursorAwareWindow keeps history intact and accounts for every scroll."""
from __future__ import annotations

from hypothesis import strategies as st

from ..cells import BLANK, show
from ..common import Res, call, exc_str, hyp_campaign
from ..refterm import OutStream, Pty, RefTerm, ScriptedIn, junk_cell
from .c02 import make_row, row_value, refmt, shorter

PROP = "C07"
RULE = (
    "Hypothesis histories over a real CursorAwareWindow on the reference terminal with scrollback: initial screen = 0..h+4 generated "
    "history lines printed with CR LF (cursor on any row, scrollback possibly non-empty, optionally junk below the cursor), sizes "
    "2..6 x 3..8, keep_last_line/hide_cursor on/off; renders with heights 0..h+4, rows <= w of single-column characters (biased to "
    "same/reformatted/shorter/full-width rows), cursor on any array cell; then the context is left. Oracle on the tape "
    "(scrollback+screen): history above the window's first row unchanged; tape[o:o+n] shows the array, everything after blank; "
    "scrolled exactly max(0, n-fit) lines; return value == rows pushed off the top; cursor on the designated cell when on screen; "
    "on exit nothing above the cursor row altered, rows from the cursor row down blank, cursor visible. Non-trivial: >=1 render "
    "that scrolls and >=1 later render."
    ' The caller may keep one list object and edit it in place between renders; terminals up to 24 x 40.'
    ' Call forms vary as in C02 (cursor_pos omitted, keyword, list; tuple and FSArray arrays with declared widths around the terminal width and ragged rows); terminals down to 1 row and 1 column; malformed control sequences are ignored by the reference terminal as xterm does.'
)
ASSUMPTIONS = [
    "reference terminal = xterm semantics (vf/refterm.py), DSR answered from the model's cursor",
    "after a render that returns k>0 the caller drops the k rows pushed off-screen (the documented protocol); the next array starts at the new first row",
]
SHARDS = {"quick": 8, "thorough": 16}


def run_case(case):
    from ..refterm import StreamExhausted

    try:
        return _run_case(case)
    except StreamExhausted as e:
        res = Res()
        res.viol("blocks_reading_a_report_the_terminal_never_sent", detail=str(e), case=case)
        return res


def _run_case(case):
    from curtsies.window import CursorAwareWindow

    res = Res()
    h, w = case["h"], case["w"]
    term = RefTerm(h, w)
    for i, line in enumerate(case["history"]):
        term.feed(line[: w - 1] + "\r\n")
    if case.get("junk_below"):
        for y in range(term.r, h):
            for x in range(w):
                term.main[y][x] = junk_cell(case["junk_below"], y, x)
        res.label("junk_below")
    if term.scrollback:
        res.label("scrollback_before_enter")
    if 0 < term.r < h - 1:
        res.label("start_midscreen")
    pty = Pty(h, w)
    try:
        out = OutStream(term, pty)
        inp = ScriptedIn(term, pty)
        kw = {}  # only what differs from the documented defaults (keep_last_line False, hide_cursor True) - or everything
        if case.get("keep_last_line", False) or case["h"] % 2:
            kw["keep_last_line"] = case.get("keep_last_line", False)
        if not case.get("hide_cursor", True) or case["w"] % 2:
            kw["hide_cursor"] = case.get("hide_cursor", True)
        win, e = call(lambda: CursorAwareWindow(out_stream=out, in_stream=inp, **kw) if case["w"] % 3 else CursorAwareWindow(out, inp, **kw))
        if e is not None:
            res.viol("constructor_raised", error=exc_str(e), case=case)
            return res
        entry_row = term.r
        _, e = call(win.__enter__)
        if e is not None:
            res.viol("enter_raised", error=exc_str(e), case=case)
            return res
        if win.top_usable_row != entry_row:
            res.viol("top_usable_row_not_cursor_row", got=win.top_usable_row, expected=entry_row, case=case)
            return res
        top = entry_row
        o = len(term.scrollback) + top
        hist = [list(r) for r in term.tape()[:o]]
        scrolled_once = False
        persistent = []
        nsteps = 0
        last_cursor_tape_row = o
        for step, op in enumerate(case["renders"]):
            nsteps += 1
            vals = [row_value(s) for s in op["rows"]]
            if case.get("reuse"):
                persistent[:] = [v for v, _ in vals]  # the caller keeps one list and edits it in place between renders
                array = persistent
                res.label("same_list_object_reused")
            elif op.get("as") == "fsarray_setitem":
                from curtsies.formatstring import fmtstr as _fmtstr
                from curtsies.formatstringarray import FSArray

                # an FSArray of some declared width whose rows are put in by a[i] = row: rows stay as long as they are
                # (ragged), shorter or longer than the declared width
                array = FSArray(len(vals), op.get("declared_width", 1))
                for i_, (v_, _) in enumerate(vals):
                    array[i_] = v_ if not isinstance(v_, str) else _fmtstr(v_)
                res.label("fsarray_rows_set_by_index")
            elif op.get("as") == "fsarray":
                from curtsies.formatstringarray import fsarray as _fsarray

                # fsarray(rows, width): declared width >= every row, rows themselves stay ragged
                longest = max([len(c) for _, c in vals], default=0)
                array = _fsarray([v for v, _ in vals], longest + op.get("declared_width", 0) % 4)
                res.label("fsarray_arg")
            else:
                array = [v for v, _ in vals]
            rows_cells = [c for _, c in vals]
            n = len(rows_cells)
            fit = h - top
            extra = max(0, n - fit)
            cur = op["cursor"]
            if n == 0:
                cur = [0, 0]
            else:
                cur = [min(cur[0], n - 1), min(cur[1], w - 1)]
            if op.get("omit_cursor"):
                cur = [0, 0]  # cursor_pos not given: the documented default (0, 0), whatever earlier renders passed
                res.label("cursor_pos_omitted")
            sb_before = term.scrolls_main
            if scrolled_once:
                res.nontrivial = True
                res.label("render_after_scroll")
            form = (step + n) % 4
            if form == 1 and not case.get("reuse") and isinstance(array, list):
                array = tuple(array)  # any sequence of lines
            ret, e = call(lambda: win.render_to_terminal(array) if op.get("omit_cursor") else win.render_to_terminal(array, tuple(cur)) if form in (0, 1) else win.render_to_terminal(array, cursor_pos=tuple(cur))
                          if form == 2 else win.render_to_terminal(array=array, cursor_pos=list(cur)))
            ctx = dict(step=step, top=top, n=n, case=case)
            if e is not None:
                res.viol("render_raised", error=exc_str(e), **ctx)
                return res
            tape = term.tape()
            if tape[:o] != hist:
                res.viol("history_above_window_altered", **ctx)
                return res
            got_rows = tape[o : o + n]
            exp_rows = [(rc + [BLANK] * w)[:w] for rc in rows_cells]
            if got_rows != exp_rows:
                res.viol("window_rows_differ_from_array", got=[show(r) for r in got_rows][:8], expected=[show(r) for r in exp_rows][:8], **ctx)
                return res
            if any(c != BLANK for r in tape[o + n :] for c in r):
                res.viol("rows_below_array_not_blank", below=[show(r) for r in tape[o + n :]][:6], **ctx)
                return res
            if term.scrolls_main - sb_before != extra:
                res.viol("scrolled_wrong_number_of_lines", got=term.scrolls_main - sb_before, expected=extra, **ctx)
                return res
            exp_ret = max(0, extra - top)
            if ret != exp_ret:
                res.viol("return_value_wrong", got=ret, expected=exp_ret, **ctx)
                return res
            if extra:
                scrolled_once = True
                res.label("scrolled")
                if exp_ret:
                    res.label("pushed_offscreen")
            cur_tape_row = o + cur[0]
            screen_row = cur_tape_row - len(term.scrollback)
            if screen_row >= 0:
                if (term.r, term.c) != (screen_row, cur[1]):
                    res.viol("cursor_not_on_designated_cell", got=[term.r, term.c], expected=[screen_row, cur[1]], **ctx)
                    return res
            else:
                res.label("cursor_row_scrolled_off")
            top = max(0, top - extra)
            if win.top_usable_row != top:
                res.viol("top_usable_row_wrong", got=win.top_usable_row, expected=top, **ctx)
                return res
            o = o + exp_ret
            hist = [list(r) for r in term.tape()[:o]]
            if term.in_alt:
                res.viol("entered_alternate_screen", **ctx)
                return res
        # leave the context
        tape_before = [list(r) for r in term.tape()]
        cur_row_before = len(term.scrollback) + term.r
        _, e = call(lambda: win.__exit__(None, None, None))
        if e is not None:
            res.viol("exit_raised", error=exc_str(e), case=case)
            return res
        tape = term.tape()
        cur_row = len(term.scrollback) + term.r
        if tape[:o] != hist:
            res.viol("history_altered_on_exit", case=case)
        elif tape[: min(cur_row, cur_row_before)] != tape_before[: min(cur_row, cur_row_before)]:
            res.viol("rows_above_cursor_altered_on_exit", case=case)
        elif any(c != BLANK for r in tape[cur_row:] for c in r):
            res.viol("rows_from_cursor_down_not_blank_on_exit", below=[show(r) for r in tape[cur_row:]][:6], case=case)
        elif not term.cursor_visible:
            res.viol("cursor_left_hidden", case=case)
        elif case.get("keep_last_line") and cur_row_before < len(tape) and tape[cur_row_before] != tape_before[cur_row_before]:
            # keep_last_line: "Causes the cursor to be moved down one line on leaving context" - the line the cursor was on stays
            res.viol("last_line_not_kept_on_exit", line=show(tape_before[cur_row_before]), now=show(tape[cur_row_before]), case=case)
        elif not case.get("keep_last_line") and cur_row != cur_row_before:
            # without keep_last_line nothing is kept: the cursor stays on its row (which is cleared with everything below)
            res.viol("cursor_row_moved_on_exit_without_keep_last_line", before=cur_row_before, after=cur_row, case=case)
        res.evals = max(1, nsteps)
    finally:
        pty.close()
    return res


@st.composite
def history(draw):
    h, w = draw(st.one_of(st.integers(1, 6), st.integers(2, 6), st.sampled_from([10, 24]))), draw(st.one_of(st.integers(1, 8), st.integers(3, 8), st.sampled_from([20, 40])))
    nhist = draw(st.sampled_from([0, 0, 1, 2, h - 1, h - 1, h, h + 1, h + 4, max(h - 2, 0)]))
    case = {
        "h": h, "w": w,
        "history": [draw(st.text(alphabet="hist0123", min_size=0, max_size=w - 1)) for _ in range(nhist)],
        "junk_below": draw(st.sampled_from([0, 0, 0, 3, 7])),
        "keep_last_line": draw(st.booleans()), "hide_cursor": draw(st.booleans()), "reuse": draw(st.sampled_from([False, False, True])), "renders": [],
    }
    prev = []
    for _ in range(draw(st.integers(1, 8))):
        n = draw(st.sampled_from([len(prev), len(prev), len(prev) + 1, h, h + 1, h + 2, h + 4, 0, 1, 2, 3, max(len(prev) - 1, 0), h - 1]))
        rows = []
        for i in range(n):
            mode = draw(st.integers(0, 6))
            if i < len(prev) and mode <= 1:
                rows.append(prev[i])
            elif i < len(prev) and mode == 2:
                rows.append(refmt(draw, prev[i]))
            elif i < len(prev) and mode == 3:
                rows.append(shorter(prev[i]))
            elif mode == 4:
                rows.append(draw(make_row(w)))
            else:
                rows.append(draw(make_row(draw(st.integers(0, w)))))
        cur = [draw(st.integers(0, max(n - 1, 0))), draw(st.integers(0, w - 1))]
        case["renders"].append({"rows": rows, "cursor": cur, "omit_cursor": draw(st.sampled_from([False, False, False, False, True])),
                                "as": draw(st.sampled_from(["list", "list", "list", "fsarray", "fsarray_setitem"])), "declared_width": draw(st.integers(0, 12))})
        prev = rows
    return case


def strategy():
    return history()


def campaign(col, tier, seed, shard, nshards):
    n = 2400 if tier == "quick" else 240000
    hyp_campaign(col, strategy(), run_case, max(n // nshards, 100), seed * 100 + shard)
