"""C05 - Parsing a FmtStr's terminal string gives the same FmtStr back."""
from __future__ import annotations

from hypothesis import strategies as st

from .. import gen, sgr
from ..cells import build_any, cells, cells_of_desc, show
from ..common import Res, call, exc_str, hyp_campaign

PROP = "C05"
RULE = (
    "(a) round trip: every attribute dict (59049, enumerated) on single runs with texts incl. newline/controls, and "
    "Hypothesis FmtStr descriptions (0-6 runs, ESC-free alphabet with \\n \\r \\t other C0 controls, wide, combining); "
    "oracle cells(from_str(str(f))) == cells(f), also through fmtstr(). (b) grammar strings (text | ESC[p1;..;pn m)* with "
    "supported parameters 0,1,2,3,4,5,7,30-37,39,40-47,49 and the empty list; oracle: independent SGR interpreter. "
    "Non-trivial: >=2 differently formatted runs or a newline in the text (a); >=1 combined parameter list and a reset "
    "that is not last (b)."
    ' Round-trip values are also derived from observed parents (caches filled first) and come in large sizes; SGR parameter lists go up to 40 parameters, grammar strings up to 70 tokens.'
)
ASSUMPTIONS = [
    "ANSI terminal = vf/sgr.py (ECMA-48/xterm SGR semantics for the supported parameters)",
    "formatting equality is cell equality (bold=False == absent)",
]
SHARDS = {"quick": 4, "thorough": 16}
PARAMS = [0, 1, 2, 3, 4, 5, 7] + list(range(30, 38)) + [39] + list(range(40, 48)) + [49]
RESETS = {0, 39, 49}


def assemble(tokens):
    out = []
    for kind, val in tokens:
        if kind == "t":
            out.append(val)
        else:
            out.append("\x1b[" + ";".join(str(p) for p in val) + "m")
    return "".join(out)


def run_case(case):
    res = Res()
    from curtsies.formatstring import FmtStr, fmtstr

    if case["kind"] == "roundtrip":
        desc = case["desc"]
        expected = cells_of_desc(desc)
        fmts = {tuple(sorted((k, v) for k, v in a.items() if v)) for t, a in desc if t}
        if len(fmts) >= 2:
            res.label("multi_format")
        if any("\n" in t for t, a in desc):
            res.label("newline")
        if any(ch in t for t, a in desc for ch in "\r\t\x00\x07\x7f"):
            res.label("other_control")
        if any(not t for t, a in desc):
            res.label("empty_run")
        res.nontrivial = bool(res.labels & {"multi_format", "newline"})
        if case.get("build") in gen.DERIVED_BUILDS:
            res.label("derived_from_observed_parent")
        f, e = call(build_any, desc, case.get("build", "chunks"), case.get("obs", 0))
        if e is not None:
            res.viol("build_raised", error=exc_str(e))
            return res
        s, e = call(str, f)
        if e is not None:
            res.viol("str_raised", error=exc_str(e), desc=desc)
            return res
    else:
        s = assemble(case["tokens"])
        expected, _state, problems = sgr.interpret(s)
        if problems:  # generator bug, not a defect
            raise AssertionError(f"grammar produced non-SGR content: {problems}")
        sgrs = [v for k, v in case["tokens"] if k == "s"]
        if any(len(v) >= 2 for v in sgrs):
            res.label("combined_params")
        if any(len(v) == 0 for v in sgrs):
            res.label("empty_param_list")
        flat = [(i, p) for i, v in enumerate(sgrs) for p in (v or [0])]
        if any(p in RESETS and i < len(sgrs) - 1 for i, p in flat):
            res.label("reset_not_last")
        if any("\n" in v for k, v in case["tokens"] if k == "t"):
            res.label("newline")
        res.nontrivial = "combined_params" in res.labels and "reset_not_last" in res.labels

    for name, fn in (("from_str", FmtStr.from_str), ("fmtstr", fmtstr)):
        g, e = call(fn, s)
        if e is not None:
            res.viol("parse_raised", via=name, error=exc_str(e), s=s[:300])
            continue
        got = cells(g)
        if got != expected:
            res.viol("parsed_differs", via=name, s=s[:300], got=show(got), expected=show(expected))
    return res


TEXT_ALPHA = gen.NARROW + gen.CTRL + gen.WIDE + gen.COMBINING + "[;m39"


def strategy():
    rt = st.fixed_dictionaries(
        {
            "kind": st.just("roundtrip"),
            "desc": gen.desc_sized(alphabet=TEXT_ALPHA, max_runs=6, max_len=4),
            "build": gen.BUILDS,
            "obs": gen.OBS,
        }
    )
    tok = st.one_of(
        st.tuples(st.just("t"), gen.text(TEXT_ALPHA, 1, 4)).map(list),
        st.tuples(st.just("s"), st.lists(st.sampled_from(PARAMS), min_size=0, max_size=4)).map(list),
        st.tuples(st.just("s"), st.lists(st.sampled_from(PARAMS), min_size=5, max_size=40)).map(list),
        st.tuples(st.just("s"), st.lists(st.sampled_from([0, 39, 49]), min_size=1, max_size=2)).map(list),
    )
    gr = st.fixed_dictionaries({"kind": st.just("grammar"), "tokens": st.one_of(st.lists(tok, min_size=0, max_size=10), st.lists(tok, min_size=0, max_size=10), st.lists(tok, min_size=20, max_size=70))})
    return st.one_of(rt, gr)


TEXTS = ["a", "x\ny", "\n", "a\tb", "Ｅé", "\rq", "m[3"]


def campaign(col, tier, seed, shard, nshards):
    idx = 0
    for a in gen.all_attribute_dicts(with_false=True):
        idx += 1
        if idx % nshards != shard:
            continue
        if tier == "quick" and any(v is False for v in a.values()) and idx % 4:
            continue  # quick: all 5184 truthy sets, a quarter of the explicit-False variants
        t = TEXTS[idx % len(TEXTS)]
        case = {"kind": "roundtrip", "desc": [[t, a]], "build": "chunks"}
        res = run_case(case)
        unknown = col.record(case, res, distinct=True, sample=(idx % 9973 == 1))
        if unknown:
            col.add_violation(case, unknown)
    col.exhaustive["single_run_attribute_dicts"] = tier == "thorough"
    n = 6000 if tier == "quick" else 200000
    hyp_campaign(col, strategy(), run_case, max(n // nshards, 100), seed * 100 + shard)
    if tier == "thorough":
        import sys as _sys

        from ..common import fuzz_stage

        fuzz_stage(col, _sys.modules[__name__], 100000 // nshards, seed * 100 + shard)
