"""C15 - str methods on a FmtStr agree with str on its text."""
from __future__ import annotations

import re

from hypothesis import strategies as st

from .. import gen
from ..cells import build_any, cells, cells_of_desc, fmt_of_atts, show, text_of
from ..common import Res, call, exc_str, hyp_campaign

PROP = "C15"
RULE = (
    "Hypothesis FmtStr descriptions with >=1 run (any layout, alphabet with separators, spaces, newline, tab, both cases, digits) x a "
    "curated method table evaluated completely per string: native split(sep) for 9 separators (present/absent/adjacent/at the ends/"
    "multi-char), split(pattern, regex=True) vs re.split for 5 group-free patterns, splitlines(False/True), join, ljust/rjust "
    "(widths below/at/above the length, with/without fill), and ~45 delegated rows (upper, lower, title, swapcase, capitalize, strip "
    "family, center, zfill, expandtabs, replace, find/rfind/index/count, startswith/endswith, isalpha/isdigit/isspace, partition, "
    "rsplit). Oracle: text / non-text answer / exception type equals the str method on .s; split/splitlines pieces have exactly the "
    "cells of their source range; other text results: every character's attribute items are a superset of those shared by all "
    "source characters and a subset of their union. Non-trivial: multi-run source with differing formatting."
    ' Strings also carry a history and come in large sizes (up to 25 runs / 90 characters per run); five strings are used both as literal separator and as regular expression within one case (order alternating); ljust/rjust widths occasionally exceed the length by 1024-1500.'
    ' Delegated methods are also called with the arguments str accepts by keyword (tabsize, sep, maxsplit); ljust/rjust/split with keyword arguments.'
)
ASSUMPTIONS = [
    "split() with no separator and split('') are outside the statement (explicit separator or regex)",
    "splitlines is judged on texts whose only line boundary is \\n (the method documents newline splitting)",
    "capture groups are ignored (the method's docstring), so the expected pieces are the text between the matches; for group-free patterns this is also compared with re.split",
    "padding added by ljust/rjust without fillchar carries only a shared background (pinned by tests/test_fmtstr.py::test_ljust_rjust); for those characters only 'no invented formatting' is asserted",
]
SHARDS = {"quick": 4, "thorough": 16}

SEPS = [",", " ", "ab", "\n", "::", "a", "x", ", ", "B", ".", "a|B", "[,;]+", "a.b", "\\", "\\n", "\\\\", "{", "%", "$", "^a", "(", "a*"]
PATTERNS = [r"\s+", r"[,;]+", r"ab?", r"\d", r"a|B", r"a.b", r"\.", r"(,|;)", r"a(b)?", r"(?:,)(\s)?",  # "capture groups are ignored"
            r",?", r"(?=,)", r"\b", r"\s*", r",|"]  # patterns that can match the empty string (re.split splits there too)
BOTH = ["a|B", "[,;]+", "a.b", "B", ","]  # valid as literal separator and as regular expression


def items_of(c):
    fg, bg, styles = c[1], c[2], c[3]
    out = set()
    if fg:
        out.add(("fg", fg))
    if bg:
        out.add(("bg", bg))
    for s in styles:
        out.add((s, True))
    return out


def piece_ranges_sep(s, sep):
    out, pos = [], 0
    for p in s.split(sep):
        out.append((pos, pos + len(p)))
        pos += len(p) + len(sep)
    return out


def piece_ranges_regex(s, pat):
    out, pos = [], 0
    for m in re.finditer(pat, s):
        out.append((pos, m.start()))
        pos = m.end()
    out.append((pos, len(s)))
    return out


def piece_ranges_lines(s, keepends):
    out, pos = [], 0
    for p in s.splitlines(True):
        end = pos + len(p)
        out.append((pos, end if keepends or not p.endswith("\n") else end - 1))
        pos = end
    return out


def delegated_rows(s):
    n = len(s)
    rows = []
    for m in ("upper", "lower", "title", "swapcase", "capitalize", "isalpha", "isdigit", "isspace", "strip", "lstrip", "rstrip", "expandtabs", "casefold"):
        rows.append((m, ()))
    for ch in (" ", "ab", "\n ,"):
        rows += [("strip", (ch,)), ("lstrip", (ch,)), ("rstrip", (ch,))]
    for w in (0, max(n - 1, 0), n, n + 1, n + 4):
        rows += [("center", (w,)), ("center", (w, "*")), ("zfill", (w,))]
    rows += [("expandtabs", (4,)), ("replace", ("a", "X")), ("replace", ("ab", "")), ("replace", (" ", "  ")), ("replace", ("a", "X", 1))]
    for sub in ("a", "ab", "zz", ",", ""):
        rows += [("find", (sub,)), ("rfind", (sub,)), ("index", (sub,)), ("count", (sub,)), ("startswith", (sub,)), ("endswith", (sub,))]
    rows += [("find", ("a", 1)), ("partition", (",",)), ("rpartition", ("a",)), ("rsplit", (",",)), ("rsplit", (" ", 1))]
    # the arguments str accepts by keyword, spelt that way
    rows += [("expandtabs", (), {"tabsize": 4}), ("expandtabs", (), {"tabsize": 1}), ("rsplit", (",",), {"maxsplit": 1}), ("rsplit", (), {"sep": ","}),
             ("rsplit", (), {"sep": " ", "maxsplit": 1}), ("rsplit", (), {"maxsplit": 1})]
    return rows


def run_case(case):
    res = Res()
    desc = case["desc"]
    f = build_any(desc, case.get("build", "chunks"), case.get("obs", 0))
    src = cells_of_desc(desc)
    s = text_of(src)
    fm = {c[1:] for c in src}
    if len(fm) >= 2:
        res.label("multi_format")
        res.nontrivial = True
    if desc and not desc[0][0]:
        res.label("leading_empty_run")
    if "\n" in s:
        res.label("has_newline")
    if src:
        shared = set.intersection(*[items_of(c) for c in src])
        union = set.union(*[items_of(c) for c in src])
    else:
        shared = set()
        union = set()
        for t, a in desc:
            union |= items_of(("",) + fmt_of_atts(a))
    evals = 0

    def pieces_check(what, args, got, err, want_text, ranges):
        if err is not None:
            res.viol(what + "_raised", args=args, desc=desc, error=exc_str(err))
            return
        if not isinstance(got, (list, tuple)) or not all(hasattr(p, "chunks") or isinstance(p, str) for p in got):
            res.viol(what + "_result_is_not_a_list_of_pieces", args=args, desc=desc, got=repr(got)[:80])
            return
        gt = [text_of(cells(p)) for p in got]
        if gt != want_text:
            res.viol(what + "_text_differs", args=args, desc=desc, got=gt, expected=want_text)
            return
        for p, (a, b) in zip(got, ranges):
            if cells(p) != src[a:b]:
                res.viol(what + "_piece_formatting_wrong", args=args, desc=desc, got=show(cells(p)), expected=show(src[a:b]))
                return

    for sep in SEPS:
        evals += 1
        got, err = call(lambda: f.split(sep) if len(s) % 2 else f.split(sep=sep, regex=False))
        pieces_check("split", [sep], got, err, s.split(sep), piece_ranges_sep(s, sep))
    for pat in PATTERNS:
        evals += 1
        got, err = call(lambda: f.split(pat, regex=True))
        rng = piece_ranges_regex(s, pat)
        if "(" not in pat.replace("(?", "") and [s[a:b] for a, b in rng] != re.split(pat, s):
            raise AssertionError(f"harness: range oracle disagrees with re.split for {pat!r} on {s!r}")
        pieces_check("split_regex", [pat], got, err, [s[a:b] for a, b in rng], rng)
    # the same string once as a literal separator and once as a regular expression, in an order that depends on the case
    order = [(b, r) for b in BOTH for r in ((False, True) if (len(s) + len(b)) % 2 else (True, False))]
    for b, as_regex in order:
        evals += 1
        got, err = call(lambda: f.split(b, regex=as_regex))
        if as_regex:
            rng = piece_ranges_regex(s, b)
            pieces_check("split_regex", [b], got, err, [s[x:y] for x, y in rng], rng)
        else:
            pieces_check("split", [b], got, err, s.split(b), piece_ranges_sep(s, b))
    for keep in (False, True):
        evals += 1
        got, err = call(lambda: f.splitlines(keep))
        pieces_check("splitlines", [keep], got, err, s.splitlines(keep), piece_ranges_lines(s, keep))
        if keep:
            got, err = call(lambda: f.splitlines(keepends=True))
            pieces_check("splitlines", ["keepends=True"], got, err, s.splitlines(True), piece_ranges_lines(s, True))
        else:
            got, err = call(lambda: f.splitlines())  # no argument: line ends are dropped, as with str
            pieces_check("splitlines", [], got, err, s.splitlines(), piece_ranges_lines(s, False))

    def text_result_check(what, args, got, want, pad=()):
        """got: FmtStr; want: str; pad: positions of padding characters added by ljust/rjust without fillchar -
        the repository's own test pins those to carry only a shared background, so for them only 'nothing
        invented' is asserted"""
        gc, err = call(cells, got)
        if err is not None:
            res.viol(what + "_result_unreadable", args=args, desc=desc, error=exc_str(err))
            return
        if text_of(gc) != want:
            res.viol(what + "_text_differs", args=args, desc=desc, got=text_of(gc), expected=want)
            return
        for ci, c in enumerate(gc):
            it = items_of(c)
            if src and ci not in pad and not it >= shared:
                res.viol(what + "_lost_shared_formatting", args=args, desc=desc, got=show(gc), shared=sorted(shared))
                return
            if not it <= union:
                res.viol(what + "_invented_formatting", args=args, desc=desc, got=show(gc), union=sorted(union))
                return

    n = len(s)
    for m in ("ljust", "rjust"):
        for w in (0, max(n - 1, 0), n, n + 1, n + 3) + ((n + 1500, n + 1024, n + 1025) if case.get("big_width") else ()):
            for fill in (None, "*", " "):
                evals += 1
                args = (w,) if fill is None else (w, fill)
                if (w + len(s)) % 2 and fill is not None:
                    got, err = call(lambda: getattr(f, m)(width=w, fillchar=fill))
                elif (w + len(s)) % 3 == 0 and fill is None:
                    got, err = call(lambda: getattr(f, m)(width=w))
                else:
                    got, err = call(lambda: getattr(f, m)(*args))
                want = getattr(s, m)(*args)
                if err is not None:
                    res.viol(m + "_raised", args=list(args), desc=desc, error=exc_str(err))
                else:
                    npad = max(0, len(want) - n) if fill is None else 0
                    pad = range(n, n + npad) if m == "ljust" else range(0, npad)
                    text_result_check(m, list(args), got, want, pad=set(pad))
    # join: text agrees with str.join on the texts
    for items in ([f, "x", f], ["", "a"], ["", ""], [f, "", "x"], ["a", "", ""], [], [""], ["a"], ["", f, ""]):
        evals += 1
        it_kind = (len(s) + len(items)) % 3
        got, err = call(lambda: f.join([items, (x for x in items), iter(items)][it_kind]))
        want = s.join([getattr(x, "s", x) for x in items])
        if err is not None:
            res.viol("join_raised", desc=desc, items=[getattr(x, "s", x) for x in items], error=exc_str(err))
        elif got.s != want:
            res.viol("join_text_differs", desc=desc, items=[getattr(x, "s", x) for x in items], got=got.s, expected=want)

    from curtsies.formatstring import FmtStr

    for m, args, *rest in delegated_rows(s):
        kw = rest[0] if rest else {}
        evals += 1
        want, werr = call(lambda: getattr(s, m)(*args, **kw))
        got, gerr = call(lambda: getattr(f, m)(*args, **kw))
        if kw:
            args = tuple(args) + tuple(sorted(kw.items()))  # (for the reports)
        if werr is not None:
            if gerr is None or type(gerr) is not type(werr):
                res.viol("delegated_exception_differs", method=m, args=list(args), desc=desc, got=exc_str(gerr) if gerr else "no exception", expected=exc_str(werr))
            continue
        if gerr is not None:
            res.viol("delegated_raised", method=m, args=list(args), desc=desc, error=exc_str(gerr))
            continue
        if isinstance(want, str):
            if not isinstance(got, FmtStr):
                if got != want:
                    res.viol("delegated_answer_differs", method=m, args=list(args), desc=desc, got=repr(got)[:100], expected=want)
                continue
            text_result_check(m, list(args), got, want)
        elif isinstance(want, list):
            if not isinstance(got, (list, tuple)):
                res.viol("delegated_answer_differs", method=m, args=list(args), desc=desc, got=repr(got)[:100], expected=repr(want)[:100])
                continue
            if [getattr(x, "s", x) for x in got] != want:
                res.viol("delegated_list_text_differs", method=m, args=list(args), desc=desc, got=[getattr(x, "s", x) for x in got], expected=want)
                continue
            for x, wtxt in zip(got, want):
                if isinstance(x, FmtStr):
                    text_result_check(m, list(args), x, wtxt)
        else:
            if got != want:
                res.viol("delegated_answer_differs", method=m, args=list(args), desc=desc, got=repr(got)[:100], expected=repr(want)[:100])
    if cells(f) != src:
        res.viol("operand_changed", desc=desc)
    res.evals = evals
    return res


ALPHA = "abAB,; \n\t1:.|ßİǰ\\{%$^(*"  # incl. characters whose case mapping changes the length


def strategy():
    run = st.tuples(gen.text(ALPHA, 0, 5), gen.atts()).map(list)
    long_run = st.tuples(gen.text(ALPHA, 10, 90), gen.atts()).map(list)
    descs = st.one_of(st.lists(run, min_size=1, max_size=4), st.lists(run, min_size=1, max_size=4), st.lists(run, min_size=1, max_size=4),
                      st.lists(run, min_size=8, max_size=25), st.lists(long_run, min_size=1, max_size=3))
    return st.fixed_dictionaries({"desc": descs, "build": gen.BUILDS, "obs": gen.OBS, "big_width": st.sampled_from([False] * 7 + [True])})


def campaign(col, tier, seed, shard, nshards):
    n = 4000 if tier == "quick" else 160000
    hyp_campaign(col, strategy(), run_case, max(n // nshards, 100), seed * 100 + shard)
