"""C02 - FullscreenWindow: after every render the screen equals the array."""
from __future__ import annotations

from hypothesis import strategies as st

from .. import gen
from ..cells import BLANK, build, cells_of_desc, cells_of_str, show
from ..common import Res, call, exc_str, hyp_campaign
from ..refterm import OutStream, Pty, RefTerm

PROP = "C02"
RULE = (
    "Hypothesis histories over a real FullscreenWindow whose out_stream feeds a reference terminal (xterm semantics incl. pending "
    "wrap, BCE, alt screen) and whose size comes from TIOCSWINSZ on a pty: renders (FSArray or list of FmtStr/str rows of single-column "
    "characters; heights 0..h+3, row lengths 0..w+3; rows biased to 'previous row with only formatting changed / one char shorter / "
    "exactly w long / equal') interleaved with resizes to a different size that leave junk on the screen and the cursor anywhere; "
    "sizes 1..6 x 1..8; hide_cursor on/off; main screen pre-filled with junk. Oracle after every render: alt buffer active, every "
    "screen cell equals the array cell (top-left part if larger) or blank unformatted, cursor at cursor_pos, no scroll since enter. "
    "Non-trivial: a render following a different render (cache in play) that differs in >=1 row."
    ' The caller may keep one list object and edit it in place between renders (same cursor position), terminals up to 24 x 40.'
    ' Call forms vary (cursor_pos positional / keyword / as a list / omitted = (0, 0); array as list, tuple, fsarray(rows, width), FSArray filled by a[i] = row); rows include non-ASCII blanks (NBSP, em space).'
)
ASSUMPTIONS = [
    "reference terminal = xterm semantics for the sequences blessed emits under TERM=xterm (vf/refterm.py); anything else is a harness error",
    "cursor_pos is generated inside the screen",
]
SHARDS = {"quick": 8, "thorough": 16}


def row_value(spec):
    if "str" in spec:
        return spec["str"], cells_of_str(spec["str"])
    return build(spec["desc"], "chunks"), cells_of_desc(spec["desc"])


def expected_screen(rows_cells, h, w):
    scr = []
    for r in range(h):
        rc = rows_cells[r] if r < len(rows_cells) else []
        scr.append([(rc[c] if c < len(rc) else BLANK) for c in range(w)])
    return scr


def run_case(case):
    from curtsies.window import FullscreenWindow
    from curtsies.formatstringarray import fsarray

    res = Res()
    h, w = case["h"], case["w"]
    term = RefTerm(h, w)
    term.fill_junk(case.get("junk", 1))
    main_before = [list(r) for r in term.main]
    pty = Pty(h, w)
    try:
        out = OutStream(term, pty)
        if case.get("hide_cursor", True) and case.get("junk", 0) % 2:
            win, e = call(lambda: FullscreenWindow(out_stream=out))  # hide_cursor defaults to True
        else:
            win, e = call(lambda: FullscreenWindow(out_stream=out, hide_cursor=case.get("hide_cursor", True)))
        if e is not None:
            res.viol("constructor_raised", error=exc_str(e), case=case)
            return res
        _, e = call(win.__enter__)
        if e is not None:
            res.viol("enter_raised", error=exc_str(e))
            return res
        if not term.in_alt:
            res.viol("alternate_screen_not_entered")
            return res
        scroll0 = (term.scrolls_main, term.scrolls_alt)
        prev_rows = None
        persistent = []
        resized = False
        rendered_size = (h, w)  # the window reads the size when it is first used
        nsteps = 0
        for step, op in enumerate(case["steps"]):
            nsteps += 1
            if op["op"] == "resize":
                if (op["h"], op["w"]) == rendered_size or resized:
                    # outside the quantifier: resizes go to a size different from the one last rendered at
                    res.label("out_of_domain_resize_skipped")
                    continue
                h, w = op["h"], op["w"]
                pty.set_size(h, w)
                term.resize(h, w, op.get("junk", 3), op.get("cursor", [0, 0]))
                resized = True
                res.label("resize")
                continue
            vals = [row_value(s) for s in op["rows"]]
            rows_cells = [c for _, c in vals]
            if op.get("as") == "fsarray":
                width = max([len(c) for c in rows_cells], default=0)
                array, e = call(lambda: fsarray([v for v, _ in vals], width))
                if e is not None:
                    continue
                res.label("fsarray_arg")
            elif op.get("as") == "fsarray_setitem":
                from curtsies.formatstringarray import FSArray
                from curtsies.formatstring import fmtstr as _fmtstr

                # an FSArray declared narrow, rows put in by a[i] = row (the one assignment without a length check)
                array = FSArray(len(vals), op.get("declared_width", 1))
                for i_, (v_, _) in enumerate(vals):
                    array[i_] = v_ if not isinstance(v_, str) else _fmtstr(v_)
                res.label("fsarray_rows_set_by_index")
            elif case.get("reuse"):
                persistent[:] = [v for v, _ in vals]  # same list object as in the previous render, edited in place
                array = persistent
                res.label("same_list_object_reused")
            else:
                array = [v for v, _ in vals]
            cur = [min(op["cursor"][0], h - 1), min(op["cursor"][1], w - 1)]
            if op.get("omit_cursor"):
                cur = [0, 0]  # cursor_pos not given: the documented default (0, 0), whatever earlier renders passed
                res.label("cursor_pos_omitted")
            if prev_rows is not None and prev_rows != rows_cells:
                res.nontrivial = True
                if [[c[0] for c in r] for r in prev_rows] == [[c[0] for c in r] for r in rows_cells]:
                    res.label("fmt_only_change")
                if len(rows_cells) < len(prev_rows):
                    res.label("fewer_rows")
                if any(len(a) < len(b) for a, b in zip(rows_cells, prev_rows)):
                    res.label("shorter_after_longer")
                if resized:
                    res.label("resize_between")
            if any(len(r) == w for r in rows_cells):
                res.label("full_width_row")
            if len(rows_cells) > h:
                res.label("taller_than_screen")
            if any(len(r) > w for r in rows_cells):
                res.label("wider_than_screen")
            form = (step + len(rows_cells)) % 4
            if form == 1 and isinstance(array, list) and not case.get("reuse"):
                array = tuple(array)  # any sequence of lines
            _, e = call(lambda: win.render_to_terminal(array) if op.get("omit_cursor") else win.render_to_terminal(array, tuple(cur)) if form in (0, 1) else win.render_to_terminal(array, cursor_pos=tuple(cur))
                        if form == 2 else win.render_to_terminal(array=array, cursor_pos=list(cur)))
            ctx = dict(step=step, h=h, w=w, rows=[show(r) for r in rows_cells][:8], case=case)
            if e is not None:
                res.viol("render_raised", error=exc_str(e), **ctx)
                return res
            if not term.in_alt:
                res.viol("left_alternate_screen", **ctx)
                return res
            exp = expected_screen(rows_cells, h, w)
            if term.alt != exp:
                bad = [(r, c) for r in range(h) for c in range(w) if term.alt[r][c] != exp[r][c]][:4]
                res.viol("screen_differs_from_array", first_bad_cells=bad, screen=[show(r) for r in term.alt][:8],
                         expected=[show(r) for r in exp][:8], **ctx)
                return res
            if (term.r, term.c) != tuple(cur):
                res.viol("cursor_not_at_cursor_pos", got=[term.r, term.c], expected=cur, **ctx)
                return res
            if (term.scrolls_main, term.scrolls_alt) != scroll0:
                res.viol("screen_scrolled", **ctx)
                return res
            prev_rows = rows_cells
            resized = False
            rendered_size = (h, w)
        _, e = call(lambda: win.__exit__(None, None, None))
        if e is not None:
            res.viol("exit_raised", error=exc_str(e))
        res.evals = max(1, nsteps)
    finally:
        pty.close()
    return res


FMTS = [{}, {}, {"fg": 31}, {"bg": 44}, {"bold": True}, {"fg": 32, "bg": 45, "underline": True}, {"invert": True}]


@st.composite
def make_row(draw, length):
    text = draw(st.text(alphabet="abcxyz .#\xa0\u2003é", min_size=length, max_size=length))  # incl. non-ASCII blanks (NBSP, em space)
    kind = draw(st.integers(0, 3))
    if kind == 0:
        return {"str": text}
    cuts = sorted(draw(st.lists(st.integers(0, length), max_size=2)))
    parts, prev = [], 0
    for c in cuts + [length]:
        parts.append([text[prev:c], draw(st.sampled_from(FMTS))])
        prev = c
    return {"desc": parts}


def row_len(spec):
    return len(spec["str"]) if "str" in spec else sum(len(t) for t, _ in spec["desc"])


def refmt(draw, spec):
    """same characters, other formatting"""
    text = spec["str"] if "str" in spec else "".join(t for t, _ in spec["desc"])
    cut = draw(st.integers(0, len(text)))
    return {"desc": [[text[:cut], draw(st.sampled_from(FMTS))], [text[cut:], draw(st.sampled_from(FMTS))]]}


def shorter(spec):
    if "str" in spec:
        return {"str": spec["str"][:-1]}
    d = [[t, dict(a)] for t, a in spec["desc"]]
    for i in range(len(d) - 1, -1, -1):
        if d[i][0]:
            d[i][0] = d[i][0][:-1]
            break
    return {"desc": d}


@st.composite
def history(draw):
    h, w = draw(st.one_of(st.integers(1, 6), st.integers(1, 6), st.sampled_from([10, 24, 6]))), draw(st.one_of(st.integers(1, 8), st.integers(1, 8), st.sampled_from([10, 40, 6, 300])))
    case = {"h": h, "w": w, "hide_cursor": draw(st.booleans()), "junk": draw(st.integers(0, 20)), "reuse": draw(st.sampled_from([False, False, True])), "steps": []}
    same_cursor = draw(st.booleans())
    last_cur = None
    prev = []
    just_resized = False
    for _ in range(draw(st.integers(1, 10))):
        if not just_resized and draw(st.integers(0, 5)) == 0:
            # one resize between two renders, to a size different from the one last rendered at
            nh, nw = draw(st.integers(1, 6)), draw(st.integers(1, 8))
            if (nh, nw) == (h, w):
                nw = w + 1 if w < 8 else w - 1
            h, w = nh, nw
            just_resized = True
            case["steps"].append({"op": "resize", "h": h, "w": w, "junk": draw(st.integers(0, 20)),
                                  "cursor": [draw(st.integers(0, h - 1)), draw(st.integers(0, w - 1))]})
            continue
        n = draw(st.sampled_from([len(prev), len(prev), h, h, max(h - 1, 0), h + 1, h + 3, 0, 1, 2, max(len(prev) - 1, 0)]))
        rows = []
        for i in range(n):
            mode = draw(st.integers(0, 7))
            if i < len(prev) and mode == 0:
                rows.append(prev[i])
            elif i < len(prev) and mode == 1:
                rows.append(refmt(draw, prev[i]))
            elif i < len(prev) and mode == 2:
                rows.append(shorter(prev[i]))
            elif mode == 3:
                rows.append(draw(make_row(w)))
            else:
                ln = draw(st.sampled_from([0, 1, max(w - 1, 0), w, w, w + 1, w + 3, max(w // 2, 0)]))
                rows.append(draw(make_row(ln)))
        just_resized = False
        cur = [draw(st.integers(0, h - 1)), draw(st.integers(0, w - 1))]
        if same_cursor and last_cur is not None and last_cur[0] < h and last_cur[1] < w:
            cur = last_cur
        last_cur = cur
        case["steps"].append({"op": "render", "rows": rows, "as": draw(st.sampled_from(["list", "list", "fsarray", "fsarray_setitem"])), "declared_width": draw(st.integers(0, 9)), "cursor": cur,
                              "omit_cursor": draw(st.sampled_from([False, False, False, False, True]))})
        prev = rows
    return case


def strategy():
    return history()


def campaign(col, tier, seed, shard, nshards):
    n = 2400 if tier == "quick" else 240000
    hyp_campaign(col, strategy(), run_case, max(n // nshards, 100), seed * 100 + shard)
