"""C08 - Input returns every byte and triggered event exactly once, in order."""
from __future__ import annotations

import os
import signal

from hypothesis import strategies as st

from .. import keymodel as km
from ..common import Res, exc_str, hyp_campaign, tb_tail
from ..simio import LineInjector, Patched, PipeStream, PtyStream, Sim, SpinsForever, WouldBlockForever, close_trigger_fds

PROP = "C08"
RULE = (
    "Hypothesis histories over a real Input on a virtual-time harness (time/select/getpreferredencoding substituted from outside; pipe "
    "set-up for multi-kilobyte bursts, raw-pty set-up with the context entered for the SIGINT/wake-up-fd paths); keynames='bytes'; "
    "paste_threshold in {None,0,1,8,100,2000}. Steps: byte arrivals (whole keypresses: unambiguous table sequences, 1-4-byte characters, "
    "control bytes; 1..6000 bytes, bursts built so that 1024-byte read offsets fall inside characters), unget_bytes, plain/threadsafe/"
    "scheduled trigger calls (equal times included), SIGINT, clock advances, requests with timeout 0/0.01/0.5/None during which "
    "further actions happen at generated virtual times ('from another thread') or at the k-th executed line of the request "
    "(sys.settrace); every history ends with a drain. Oracle: queue model judging validity of every result (key = next bytes in "
    "FIFO order, buffered first; event = oldest undelivered of its trigger; scheduled = due and earliest; SigIntEvent only if one is "
    "outstanding; PasteEvent iff the request's first read exceeded the threshold, holding all available bytes in order; None only "
    "if nothing was deliverable and, with nothing scheduled, not before the timeout), no request raises, after the drain everything "
    "was delivered exactly once. Non-trivial: >=2 sources pending at one request, a paste, or an action injected during a request."
    " Plus: an enumeration of every table sequence (>=3 bytes) placed so that its first j bytes end a 1024-byte read, for every j, in and outside paste mode, with the paste's keypress segmentation judged; select returning slightly after its deadline; requests made before the context is entered (pty); macros for an earlier event scheduled while blocked on a later one and for SIGINT during a blocked request; a share of cases under curtsies/curses naming judged through the keypress boundaries."
    ' Also: the context left and entered again (with requests in between), another Input on the same terminal entered and left inside the context (then a SIGINT or thread-safe event that must end a blocked request), bytes typed before the context is entered, disable_terminal_start_stop, constructor arguments positional/keyword/mixed and keynames as enum member, unget_bytes while other bytes are held, in all three naming modes (enumerated history cases); a request that retries a failing select forever is reported as request_never_returns; bytes missing from the stream when another reader looks are reported as vanished.'
)
ASSUMPTIONS = [
    "virtual-time faithfulness: callbacks only append to lists/write a pipe and signal handlers run between bytecodes of the main thread, so firing them on the same thread inside the blocking select or at a line boundary is a faithful 'other thread'",
    "a scheduled event whose time equals the current time need not be delivered yet (the statement says 'never before its time')",
    "arrivals are concatenations of whole keypresses; a table sequence that is a proper prefix of a longer one is never followed by a byte >=0x80 (that shape is C03's known finding)",
    "READ_SIZE (bytes per read) is read from curtsies.input as data",
]
SHARDS = {"quick": 8, "thorough": 16}


class Model:
    def __init__(self, threshold, read_size, sigint_event):
        self.fifo = bytearray()
        self.held = 0
        self.plain = []  # (trigger, n) in firing order
        self.ts = []
        self.sched = []  # (when, trigger, n)
        self.sigints = 0
        self.threshold, self.read_size, self.sigint_event = threshold, read_size, sigint_event
        self.delivered = 0
        self.offset = 0  # absolute stream offset of fifo[0]
        self.token_end = {}  # absolute offset of a keypress start -> absolute offset of its end (for arrivals made of whole keypresses)
        self.reads = []  # sizes of the reads the library made from the stream during the current request
        self.late_arrival = False

    def deliverable(self, now):
        src = []
        if self.held or self.fifo:
            src.append("bytes")
        if self.plain:
            src.append("plain")
        if self.ts:
            src.append("threadsafe")
        if any(w < now for w, _, _ in self.sched):
            src.append("scheduled")
        if self.sigints and self.sigint_event:
            src.append("sigint")
        return src

    def empty(self):
        return not (self.fifo or self.plain or self.ts or self.sched)


def make_events():
    from curtsies import events

    class Ev(events.Event):
        def __init__(self, kind, trigger, n):
            self.kind, self.trigger, self.n = kind, trigger, n

        def __repr__(self):
            return f"<Ev {self.kind}{self.trigger}#{self.n}>"

    def sched_class(trigger, counter):
        class SEv(events.ScheduledEvent):
            def __init__(self, when):
                super().__init__(when)
                self.trigger = trigger
                self.n = counter[0]
                counter[0] += 1

            def __repr__(self):
                return f"<SEv {self.trigger}#{self.n} @{self.when}>"

        return SEv

    return Ev, sched_class


def run_case(case):
    import curtsies.input as ci
    from curtsies import events

    res = Res()
    setup = case.get("setup", "pipe")
    threshold = case.get("paste_threshold")
    sigint_event = bool(case.get("sigint_event")) and setup == "pty"
    sim = Sim()
    sim.overshoot = case.get("overshoot", 0.0)
    stream = PipeStream() if setup == "pipe" else PtyStream()
    model = Model(threshold, ci.READ_SIZE, sigint_event)
    Ev, sched_class = make_events()
    callbacks = []
    old_handler = signal.getsignal(signal.SIGINT)
    old_wakeup = None
    entered = False
    inp = None
    try:
        keynames = case.get("keynames", "bytes")
        dtss = bool(case.get("disable_terminal_start_stop")) and setup == "pty"
        if case.get("keynames_enum"):
            # the naming mode given as the enumeration member instead of its name
            keynames_arg = {"bytes": events.Keynames.BYTES, "curtsies": events.Keynames.CURTSIES, "curses": events.Keynames.CURSES}[keynames]
        else:
            keynames_arg = keynames
        form = case.get("ctor_form", 0)  # the same construction spelt with keywords, positionally, or mixed
        if form == 3:
            # only what differs from the documented defaults is passed (keynames 'curtsies', paste_threshold = longest table
            # sequence + 1, sigint_event False, disable_terminal_start_stop False)
            kw = {}
            if keynames != "curtsies":
                kw["keynames"] = keynames_arg
            if threshold != km.tables().maxlen + 1:
                kw["paste_threshold"] = threshold
            if sigint_event:
                kw["sigint_event"] = True
            if dtss:
                kw["disable_terminal_start_stop"] = True
            inp = ci.Input(stream, **kw)
            if len(kw) < 4:
                res.label("constructor_defaults_relied_on")
        elif form == 1:
            inp = ci.Input(stream, keynames_arg, threshold, sigint_event, dtss)
        elif form == 2:
            inp = ci.Input(stream, keynames_arg, threshold, sigint_event=sigint_event, disable_terminal_start_stop=dtss)
        else:
            inp = ci.Input(in_stream=stream, keynames=keynames_arg, paste_threshold=threshold, sigint_event=sigint_event,
                           disable_terminal_start_stop=dtss)
        if form:
            res.label("positional_constructor_arguments")
        if keynames != "bytes":
            res.label("keynames_" + keynames)
        ntrig = case.get("triggers", {"plain": 2, "threadsafe": 2, "scheduled": 2})
        counters = {"plain": [0] * 4, "ts": [0] * 4}
        plain_cbs = [inp.event_trigger(lambda n, i=i: Ev("plain", i, n)) for i in range(ntrig.get("plain", 2))]
        ts_cbs = [inp.threadsafe_event_trigger(lambda n, i=i: Ev("ts", i, n)) for i in range(ntrig.get("threadsafe", 2))]
        callbacks += ts_cbs
        sched_counters = [[0] for _ in range(ntrig.get("scheduled", 2))]
        sched_cbs = [inp.scheduled_event_trigger(sched_class(i, sched_counters[i])) for i in range(ntrig.get("scheduled", 2))]

        trigger_failures = []
        # a trigger callback running on behalf of the harness ("another thread") is not itself interrupted by a further injected
        # action: two calls of one trigger racing each other have no defined order, so nothing could be judged about them
        in_callback = [0]

        def guarded(fn, what):
            # a trigger callback is called "from another thread": if it raises, the event is lost - that is a failure of
            # the library, recorded and reported after the current step
            in_callback[0] += 1
            try:
                fn()
            except Exception as e:  # noqa
                trigger_failures.append(f"{what} raised {exc_str(e)}")
            finally:
                in_callback[0] -= 1

        def act_arrive(data, late=False, tokens=None):
            if setup == "pty" and len(model.fifo) - model.held + len(data) > 3500:
                res.label("pty_arrival_skipped")  # 4 KiB pty buffer, single-threaded harness
                return
            if keynames != "bytes" and len(model.fifo) - model.held + len(data) > 1000:
                res.label("name_mode_arrival_skipped")  # a read of READ_SIZE bytes must never cut a keypress in these cases
                return
            stream.feed(data)
            if tokens:
                pos = model.offset + len(model.fifo)
                for tl in tokens:
                    model.token_end[pos] = pos + tl
                    pos += tl
            model.fifo += data
            if late:
                model.late_arrival = True

        def act_fire(kind, i):
            if kind == "plain" and plain_cbs:
                i %= len(plain_cbs)
                n = counters["plain"][i]
                counters["plain"][i] += 1
                model.plain.append((i, n))
                guarded(lambda: plain_cbs[i](n=n), "event_trigger callback")
            elif kind == "ts" and ts_cbs:
                i %= len(ts_cbs)
                n = counters["ts"][i]
                counters["ts"][i] += 1
                model.ts.append((i, n))
                guarded(lambda: ts_cbs[i](n=n), "threadsafe_event_trigger callback")

        def act_schedule(i, dt):
            if not sched_cbs:
                return
            i %= len(sched_cbs)
            when = sim.now + dt
            model.sched.append((when, i, sched_counters[i][0]))
            guarded(lambda: sched_cbs[i](when), "scheduled_event_trigger callback")

        def act_sigint():
            if sigint_event and entered:
                if signal.getsignal(signal.SIGINT) is old_handler:
                    # the Input was constructed with sigint_event=True and entered on the main thread, yet SIGINT is still
                    # handled by whatever was installed before: a Ctrl-C would not become an event (reported, not raised)
                    trigger_failures.append("sigint_event=True but no SIGINT handler was installed by entering the context")
                    return
                model.sigints += 1
                signal.raise_signal(signal.SIGINT)

        def perform(a, late=False):
            k = a["act"]
            if k == "arrive":
                act_arrive(bytes.fromhex(a["data"]), late, a.get("tokens"))
            elif k == "fire":
                for _ in range(a.get("count", 1)):
                    act_fire(a["kind"], a.get("i", 0))
            elif k == "schedule":
                act_schedule(a.get("i", 0), a.get("dt", 0.0))
            elif k == "sigint":
                act_sigint()

        def read_hook(fd, n):
            if fd == stream.fileno() and n > 0:
                model.reads.append(n)
                model.held += n

        with Patched(sim, read_hook):
            nreq = 0
            # a second, unrelated Input on its own stream, left holding read-but-undecoded bytes while the history runs:
            # objects must not share state
            bystander = bystander_stream = None
            if case.get("bystander"):
                res.label("second_input_object_alive")
                bystander_stream = PipeStream()
                bystander = ci.Input(in_stream=bystander_stream, keynames="bytes", paste_threshold=None)
                bystander_stream.feed(b"pqr")
                try:
                    first = bystander.send(0)
                except Exception as e:  # noqa
                    first = e
                if first != b"p":
                    res.viol("second_input_object_disturbed", got=repr(first)[:80], expected="b'p'", case=case)
                    return res

            def request(timeout, during=(), inject=None, label_step=None):
                nonlocal nreq
                nreq += 1
                start = sim.now
                d0 = model.deliverable(start)
                sched_pending_at_start = bool(model.sched)
                if len(d0) >= 2:
                    res.nontrivial = True
                    res.label("two_sources_pending")
                    if "bytes" in d0 and ("plain" in d0 or "threadsafe" in d0):
                        res.label("event_while_buffered")
                sim.clear_actions()
                sim.gave_up = False
                for a in during:
                    sim.at(a.get("at", 0.0), lambda a=a: perform(a))
                    res.label("action_during_request")
                    res.nontrivial = True
                model.late_arrival = False
                flags = {"ts_pending_at_empty_return": False}

                def on_empty():
                    flags["ts_pending_at_empty_return"] = bool(model.ts) or bool(model.sigints and sigint_event)

                sim.on_empty_return = on_empty
                held_at_start = model.held
                model.reads = []
                try:
                    if inject is not None:
                        res.label("line_injection")
                        res.nontrivial = True
                        with LineInjector(inject["line"], lambda: perform(inject["act"], late=True), suspended=lambda: in_callback[0] > 0 or sim.gave_up):
                            out = inp.send(timeout)
                    else:
                        out = inp.send(timeout)
                except SpinsForever:
                    res.viol("request_never_returns", detail="select on an invalid descriptor set is retried forever", step=label_step, case=case)
                    return "stop"
                except WouldBlockForever:
                    # plain event_trigger events fired during the request do not wake it (documented: checked at the
                    # next request); anything deliverable at the start, threadsafe events and SIGINT events must
                    wake = list(d0) + (["threadsafe"] if model.ts else []) + (["sigint"] if model.sigints and sigint_event else [])
                    if wake:
                        res.viol("blocks_forever_while_deliverable", deliverable=wake, step=label_step, case=case)
                        return "stop"
                    res.label("would_block_forever")
                    return None
                except Exception as e:  # noqa
                    res.viol("request_raised", error=exc_str(e), where=tb_tail(e), step=label_step, case=case)
                    return "stop"
                finally:
                    sim.on_empty_return = None
                    sim.clear_actions()
                now = sim.now
                try:
                    shown = repr(out)[:120]
                except Exception as e_:  # noqa  (an event whose repr() fails is still an event; say so in the report)
                    shown = f"<{type(out).__name__}: repr() raised {type(e_).__name__}>"
                ctx = dict(step=label_step, result=shown, case=case)
                if trigger_failures:
                    res.viol("trigger_callback_raised", detail=trigger_failures[:2], **ctx)
                    return "stop"
                if out is None:
                    if d0:
                        res.viol("none_while_deliverable", deliverable=d0, **ctx)
                        return "stop"
                    if flags["ts_pending_at_empty_return"]:
                        res.viol("timed_out_while_wakeup_event_pending", **ctx)
                        return "stop"
                    if timeout is not None and not sched_pending_at_start and not model.sched and now - start < timeout - 1e-9:
                        res.viol("none_before_timeout", waited=now - start, timeout=timeout, **ctx)
                        return "stop"
                    return None
                if isinstance(out, Ev):
                    pend = model.plain if out.kind == "plain" else model.ts
                    first = next((p for p in pend if p[0] == out.trigger), None)
                    if first is None:
                        res.viol("event_delivered_twice_or_never_fired", **ctx)
                        return "stop"
                    if first[1] != out.n:
                        res.viol("events_of_one_trigger_out_of_order", expected_n=first[1], **ctx)
                        return "stop"
                    pend.remove(first)
                    model.delivered += 1
                    return out
                if isinstance(out, events.ScheduledEvent):
                    key = next((s for s in model.sched if s[1] == getattr(out, "trigger", None) and s[2] == getattr(out, "n", None)), None)
                    if key is None:
                        res.viol("scheduled_event_delivered_twice_or_never_scheduled", **ctx)
                        return "stop"
                    if key[0] > now:
                        res.viol("scheduled_event_before_its_time", when=key[0], now=now, **ctx)
                        return "stop"
                    if key[0] > min(s[0] for s in model.sched):
                        res.viol("scheduled_events_out_of_time_order", when=key[0], earliest=min(s[0] for s in model.sched), **ctx)
                        return "stop"
                    if sum(1 for s in model.sched if s[0] == key[0]) > 1:
                        res.label("equal_times")
                    if any(s[0] == key[0] and s[1] == key[1] and s[2] < key[2] for s in model.sched):
                        # "events from one trigger in trigger order": scheduled for the same time through the same trigger
                        res.viol("events_of_one_trigger_out_of_order", detail="equal scheduled times, later call delivered first", **ctx)
                        return "stop"
                    model.sched.remove(key)
                    model.delivered += 1
                    return out
                if isinstance(out, events.SigIntEvent):
                    if model.sigints <= 0:
                        res.viol("sigint_event_without_sigint", **ctx)
                        return "stop"
                    model.sigints -= 1
                    res.label("sigint_delivered")
                    return out
                if keynames != "bytes" and (isinstance(out, str) or isinstance(out, events.PasteEvent)):
                    # names -> bytes through the keypress boundaries of the arrivals (whole keypresses, never cut in these cases)
                    names = [out] if isinstance(out, str) else list(out.events)
                    pos, as_bytes = model.offset, []
                    for nm in names:
                        end = model.token_end.get(pos)
                        if end is None or end - model.offset > len(model.fifo):
                            res.label("name_mode_desynchronised")
                            return "stop"
                        tok = bytes(model.fifo[pos - model.offset : end - model.offset])
                        exp = km.expected_name(tok, "utf-8", keynames)
                        if exp is not None and nm != exp:
                            res.viol("wrong_key_name", got=repr(nm)[:40], expected=repr(exp)[:40], token=tok.hex(), **ctx)
                            return "stop"
                        as_bytes.append(tok)
                        pos = end
                    if isinstance(out, str):
                        out = as_bytes[0]
                    else:
                        out.events = as_bytes
                # bytes: key or paste.  model.held is exact: every os.read the library makes on the stream is observed.
                first_read = model.reads[0] if model.reads else 0
                big = threshold is not None and first_read > threshold
                if model.held > len(model.fifo):
                    res.viol("library_read_bytes_that_never_arrived", held=model.held, known=len(model.fifo), **ctx)
                    return "stop"
                if isinstance(out, events.PasteEvent):
                    res.label("paste")
                    res.nontrivial = True
                    if not big:
                        res.viol("paste_event_without_large_read", first_read=first_read, threshold=threshold, **ctx)
                        return "stop"
                    if not all(isinstance(k, bytes) for k in out.events):
                        res.viol("paste_event_holds_something_that_is_not_a_keypress", events=[repr(k)[:20] for k in out.events[:8]], **ctx)
                        return "stop"
                    data = b"".join(k for k in out.events)
                    if len(data) > 2048:
                        res.label("paste_multi_kb")
                    if data != bytes(model.fifo[: model.held]):
                        exp = bytes(model.fifo[: model.held])
                        res.viol("paste_content_differs", got_len=len(data), expected_len=len(exp),
                                 first_diff=next((i for i, (x, y) in enumerate(zip(data, exp)) if x != y), min(len(data), len(exp))), **ctx)
                        return "stop"
                    if model.held != len(model.fifo) and not model.late_arrival:
                        res.viol("paste_left_available_bytes_unread", unread=len(model.fifo) - model.held, **ctx)
                        return "stop"
                    # "holding its keypresses": an event that starts where an arrived keypress starts must be that keypress
                    pos = model.offset
                    for kb in out.events:
                        end = model.token_end.get(pos)
                        if end is not None and end <= model.offset + len(data) and pos + len(kb) != end:
                            res.viol("paste_keypress_broken_up_or_merged", at=pos - model.offset, got=kb.hex(), expected_len=end - pos, **ctx)
                            return "stop"
                        pos += len(kb)
                    del model.fifo[: len(data)]
                    model.offset += len(data)
                    model.held -= len(data)
                    return out
                if isinstance(out, bytes):
                    if big and held_at_start == 0:
                        res.viol("large_read_not_reported_as_paste", first_read=first_read, threshold=threshold, **ctx)
                        return "stop"
                    k = len(out)
                    if k == 0 or k > model.held or bytes(model.fifo[:k]) != out:
                        res.viol("key_is_not_the_next_bytes", expected_prefix=bytes(model.fifo[: max(k, 4)]).hex(), held=model.held, **ctx)
                        return "stop"
                    if held_at_start > 0 and model.reads and held_at_start < k:
                        res.label("topped_up_across_read_boundary")
                    del model.fifo[:k]
                    model.offset += k
                    model.held -= k
                    return out
                res.viol("unknown_result", **ctx)
                return "stop"

            stop = False
            if setup == "pty":
                # the object may be used before its context is entered (as with a pipe): a few requests first
                for tmo in case.get("pre_enter_requests", []):
                    res.label("request_before_entering_context")
                    if request(tmo, label_step="pre_enter") == "stop":
                        stop = True
                        break
                if case.get("typeahead"):
                    # typed before the program set the terminal up: waiting in the tty when the context is entered
                    res.label("bytes_waiting_when_context_entered")
                    ta = bytes.fromhex(case["typeahead"]["data"])
                    act_arrive(ta, tokens=case["typeahead"].get("tokens"))
                inp.__enter__()
                entered = True
            for si, step in enumerate(case["steps"] if not stop else []):
                op = step["op"]
                if op == "reenter":
                    # the context is left and the same object entered again: what it holds stays held
                    if entered:
                        res.label("context_left_and_entered_again")
                        if model.held:
                            res.label("reentered_while_holding_bytes")
                            res.nontrivial = True
                        inp.__exit__(None, None, None)
                        entered = False
                        for tmo in step.get("requests_outside", []):
                            if request(tmo, label_step="between_contexts") == "stop":
                                stop = True
                                break
                        if stop:
                            break
                        inp.__enter__()
                        entered = True
                    continue
                if op == "nested_input":
                    # another Input on the same terminal is entered and left inside this one's context (a nested prompt):
                    # it makes no request, so it reads nothing; afterwards the outer one must work as before - its SIGINT
                    # handler and the wake-up descriptor that ends a blocked request included
                    if entered and setup == "pty":
                        res.label("nested_input_entered_and_left")
                        try:
                            with ci.Input(in_stream=stream, keynames=keynames_arg, sigint_event=bool(step.get("sigint_event"))):
                                pass
                        except Exception as e:  # noqa
                            res.viol("nested_input_context_raised", error=exc_str(e), case=case)
                            break
                    continue
                if op == "arrive":
                    data = bytes.fromhex(step["data"])
                    if len(data) > 1024:
                        res.label("multi_kb_burst")
                    act_arrive(data, tokens=step.get("tokens"))
                elif op == "unget":
                    # unget_bytes is "for reporting bytes from an in_stream read not initiated by this Input object":
                    # another reader takes the next n bytes from the stream and hands them over
                    if step.get("data"):
                        act_arrive(bytes.fromhex(step["data"]), tokens=step.get("tokens"))
                    import select as _rs

                    got = b""
                    if _rs.select([stream.fileno()], [], [], 0)[0]:
                        got = os.read(stream.fileno(), max(1, step.get("n", 4)))
                    if got:
                        if bytes(model.fifo[model.held : model.held + len(got)]) != got:
                            # another reader finds other bytes on the stream than were written to it and not yet read by the
                            # Input: something discarded input (e.g. a flushing tcsetattr) - those bytes can never be returned
                            res.viol("bytes_written_to_the_stream_vanished", expected_next=bytes(model.fifo[model.held : model.held + 8]).hex(),
                                     found=got[:8].hex(), step=si, case=case)
                            stop = True
                            break
                        inp.unget_bytes(got)
                        model.held += len(got)
                        res.label("unget")
                elif op == "fire":
                    for _ in range(step.get("count", 1)):
                        act_fire(step["kind"], step.get("i", 0))
                elif op == "schedule":
                    act_schedule(step.get("i", 0), step.get("dt", 0.0))
                elif op == "sigint":
                    act_sigint()
                elif op == "advance":
                    sim.now += step["dt"]
                elif op == "garbage":
                    # undecodable bytes: the decoder may reject them (raise) and they may be lost - but once they are gone
                    # the object must work again.  Tolerant phase: request until the stream is quiet, judging nothing.
                    if model.plain or model.ts or model.sched or model.sigints or keynames != "bytes":
                        continue
                    res.label("undecodable_bytes_then_recovery")
                    res.nontrivial = True
                    then = [bytes.fromhex(x) for x in step.get("then", [])]
                    stream.feed(bytes.fromhex(step["data"]) + b"".join(then))
                    quiet = 0
                    got_keys = []
                    for _ in range(200 + 2 * len(model.fifo)):
                        try:
                            r_ = inp.send(0)
                        except Exception:
                            r_ = "raised"
                        if isinstance(r_, bytes):
                            got_keys.append(r_)
                        elif isinstance(r_, events.PasteEvent):
                            got_keys.extend(k_ for k_ in r_.events if isinstance(k_, bytes))
                        quiet = quiet + 1 if r_ is None else 0
                        if quiet >= 2:
                            break
                    else:
                        res.viol("never_quiet_after_undecodable_bytes", step=si, case=case)
                        stop = True
                        break
                    if len(then) >= 2 and not b"".join(got_keys).endswith(b"".join(then[1:])):
                        # the keypress right behind the garbage may be damaged by it; every byte after that must arrive, in order
                        # (as bytes, not as a list of keypresses: where a 1024-byte read happens to end inside a sequence whose
                        # beginning is itself a key - ESC [ of ESC [ A - the cut is legitimate and not this property's business)
                        res.viol("valid_keypresses_after_undecodable_bytes_lost", expected_tail=[x.hex() for x in then[1:]],
                                 got=[x.hex() for x in got_keys[-6:]], step=si, case=case)
                        stop = True
                        break
                    model.offset += len(model.fifo)
                    model.fifo = bytearray()
                    model.held = 0
                    model.reads = []
                elif op == "request":
                    r = request(step.get("timeout"), step.get("during", ()), step.get("inject"), si)
                    if r == "stop":
                        stop = True
                        break
                if trigger_failures:
                    res.viol("trigger_callback_raised", detail=trigger_failures[:2], step=si, case=case)
                    stop = True
                    break
            if not stop:
                # drain
                sim.now += 10.0
                idle = 0
                guard = 0
                while idle < 3 and guard < 20000:
                    guard += 1
                    r = request(0, label_step="drain")
                    if r == "stop":
                        stop = True
                        break
                    if r is None:
                        idle += 1
                        sim.now += 10.0
                    else:
                        idle = 0
                if not stop and not model.empty():
                    res.viol("not_everything_delivered_after_drain", bytes_left=len(model.fifo), plain_left=model.plain[:4],
                             threadsafe_left=model.ts[:4], scheduled_left=model.sched[:4], case=case)
            if bystander is not None and not stop:
                rest = []
                for _ in range(4):
                    try:
                        rest.append(bystander.send(0))
                    except Exception as e:  # noqa
                        rest.append(exc_str(e))
                if rest != [b"q", b"r", None, None]:
                    res.viol("second_input_object_disturbed", got=repr(rest)[:120], expected="[b'q', b'r', None, None]", case=case)
            res.evals = max(1, nreq)
    finally:
        try:
            if bystander_stream is not None:
                bystander_stream.close()
        except Exception:
            pass
        try:
            if entered:
                inp.__exit__(None, None, None)
        except Exception:
            pass
        signal.signal(signal.SIGINT, old_handler)
        if inp is not None:
            close_trigger_fds(inp, callbacks)
        stream.close()
    return res


# ---------------------------------------------------------------------------------------
# generators


def token_pool():
    T = km.tables()
    seqs = [t for t in sorted(T.table) if t not in T.prefixes and not (len(t) == 1 and t[0] >= 0x80) and t != b"\x1b"]
    return seqs


def payload_strategy(max_tokens=12):
    """-> strategy of (bytes, [token lengths]): concatenations of whole keypresses"""
    seqs = token_pool()
    long_seqs = [t for t in seqs if len(t) >= 5]
    chars = st.one_of(
        st.characters(min_codepoint=0x20, max_codepoint=0x7E),
        st.characters(min_codepoint=0xA0, max_codepoint=0x7FF),
        st.characters(min_codepoint=0x800, max_codepoint=0xFFFF, exclude_categories=["Cs"]),
        st.characters(min_codepoint=0x10000, max_codepoint=0x10FFFF),
    ).map(lambda c: c.encode("utf-8"))
    tok = st.one_of(st.sampled_from(seqs), chars, chars, st.sampled_from([b"\r", b"\t", b"\x01", b"\x7f", b"a", b" "]))
    small = st.lists(tok, min_size=1, max_size=max_tokens).map(lambda ts: (b"".join(ts), [len(t) for t in ts]))

    def burst(args):
        pad, ch, n, tail = args
        return b"a" * pad + ch * n + tail[0], [1] * pad + [len(ch)] * n + tail[1]

    big = st.tuples(
        st.integers(0, 3),
        st.sampled_from(["∂".encode(), "é".encode(), "\U0001f600".encode(), "中".encode()]),
        st.sampled_from([300, 342, 400, 700, 1100, 1500]),
        small,
    ).map(burst)

    def straddle(args):
        m, j, key, tail = args
        j = 1 + j % (len(key) - 1)  # the key's first j bytes end a READ_SIZE-sized read
        pad = 1024 * m - j
        return b"a" * pad + key + tail[0], [1] * pad + [len(key)] + tail[1]

    strad = st.tuples(st.sampled_from([1, 1, 2, 3]), st.integers(0, 9),
                      st.one_of(st.sampled_from(long_seqs), st.sampled_from(["∂".encode(), "\U0001f600".encode()])), small).map(straddle)
    return st.one_of(small, small, small, big, strad)


def pty_safe(data: bytes):
    return data[:3000]


def strategy():
    pay = payload_strategy()
    action = st.one_of(
        st.tuples(pay, st.sampled_from([0.0, 0.005, 0.2, 1.0])).map(lambda t: {"act": "arrive", "data": t[0][0].hex(), "tokens": t[0][1], "at": t[1]}),
        st.fixed_dictionaries({"act": st.just("fire"), "kind": st.sampled_from(["plain", "ts", "ts"]), "i": st.integers(0, 1), "count": st.sampled_from([1, 1, 2, 3]), "at": st.sampled_from([0.0, 0.005, 0.2])}),
        st.fixed_dictionaries({"act": st.just("schedule"), "i": st.integers(0, 1), "dt": st.sampled_from([0.0, 0.005, 0.2]), "when_dt": st.sampled_from([-1.0, 0.0, 0.02, 0.1, 0.1, 5.0])}).map(
            lambda d: {"act": "schedule", "i": d["i"], "dt": d["when_dt"], "at": d["dt"]}
        ),
        st.fixed_dictionaries({"act": st.just("sigint"), "at": st.sampled_from([0.0, 0.005])}),
    )
    inject = st.one_of(
        st.none(), st.none(), st.none(),
        st.fixed_dictionaries({"line": st.integers(1, 60), "act": st.one_of(
            st.fixed_dictionaries({"act": st.just("fire"), "kind": st.sampled_from(["plain", "ts"]), "i": st.integers(0, 1), "count": st.sampled_from([1, 2])}),
            pay.map(lambda t: {"act": "arrive", "data": t[0].hex(), "tokens": t[1]}),
            st.fixed_dictionaries({"act": st.just("sigint")}),
        )}),
    )
    step = st.one_of(
        pay.map(lambda t: {"op": "arrive", "data": t[0].hex(), "tokens": t[1]}),
        pay.map(lambda t: {"op": "arrive", "data": t[0].hex(), "tokens": t[1]}),
        st.tuples(st.one_of(st.none(), payload_strategy(4)), st.sampled_from([1, 2, 3, 5, 8, 40, 2000])).map(
            lambda t: {"op": "unget", "data": t[0][0].hex() if t[0] else None, "tokens": t[0][1] if t[0] else None, "n": t[1]}),
        st.fixed_dictionaries({"op": st.just("fire"), "kind": st.sampled_from(["plain", "ts"]), "i": st.integers(0, 1), "count": st.sampled_from([1, 1, 2, 3])}),
        st.fixed_dictionaries({"op": st.just("schedule"), "i": st.integers(0, 1), "dt": st.sampled_from([-1.0, 0.0, 0.02, 0.1, 0.1, 0.3, 5.0])}),
        st.fixed_dictionaries({"op": st.just("sigint")}),
        st.fixed_dictionaries({"op": st.just("reenter"), "requests_outside": st.lists(st.sampled_from([0, 0.01]), max_size=1)}),
        st.fixed_dictionaries({"op": st.just("nested_input"), "sigint_event": st.booleans()}),
        st.fixed_dictionaries({"op": st.just("garbage"), "data": st.sampled_from(["c341", "e228a1", "fffe", "c3", "f09f98", "80", "e288", "c0af", "eda080", "1bc3a9"]),
                               "then": st.sampled_from([[], [], ["61", "1b5b41", "c3a9", "62"], ["1b5b313b3543", "7a", "e28882"]])}),
        st.fixed_dictionaries({"op": st.just("advance"), "dt": st.sampled_from([0.01, 0.05, 0.09, 0.1, 0.2, 1.0])}),
        st.fixed_dictionaries({"op": st.just("request"), "timeout": st.sampled_from([0, 0, 0.0, 0.01, 0.5, None]),
                               "during": st.lists(action, max_size=2), "inject": inject}),
        st.fixed_dictionaries({"op": st.just("request"), "timeout": st.sampled_from([0, 0.01, 0.5]), "during": st.just([]), "inject": st.none()}),
    )

    # macro: an event is already scheduled, the request blocks on it, and an earlier one is scheduled "from another thread" meanwhile
    sched_race = st.tuples(
        st.sampled_from([0.1, 0.3, 0.3, 5.0]), st.sampled_from([0.5, None, None]), st.sampled_from([0.005, 0.05, 0.2]),
        st.sampled_from([-1.0, 0.0, 0.02, 0.05]), st.integers(0, 1), st.integers(0, 1),
    ).map(lambda t: [
        {"op": "schedule", "i": t[4], "dt": t[0]},
        {"op": "request", "timeout": t[1], "inject": None, "during": [{"act": "schedule", "i": t[5], "dt": t[3], "at": t[2]}]},
        {"op": "request", "timeout": 0.5, "inject": None, "during": []},
    ])
    sigint_race = st.tuples(st.sampled_from([0.5, 0.5, None]), st.sampled_from([0.0, 0.005, 0.2])).map(
        lambda t: [{"op": "request", "timeout": t[0], "inject": None, "during": [{"act": "sigint", "at": t[1]}]}])
    # a SIGINT between two requests, then a request that has nothing to deliver and must wait out its timeout
    sigint_between = st.sampled_from([0.5, 0.01, 0.5]).map(lambda t: [
        {"op": "request", "timeout": 0, "during": [], "inject": None}, {"op": "sigint"},
        {"op": "request", "timeout": 0, "during": [], "inject": None}, {"op": "request", "timeout": t, "during": [], "inject": None},
        {"op": "request", "timeout": t, "during": [], "inject": None}])
    # equal scheduled times with deliveries of other scheduled events in between
    sched_equal = st.tuples(st.sampled_from([0.1, 0.3]), st.integers(0, 1), st.integers(1, 2)).map(lambda t: (
        [{"op": "schedule", "i": 0, "dt": 0.02}] * t[2] + [{"op": "schedule", "i": t[1], "dt": t[0]}]
        + [{"op": "advance", "dt": 0.05}] + [{"op": "request", "timeout": 0, "during": [], "inject": None}] * t[2]
        + [{"op": "schedule", "i": t[1], "dt": t[0] - 0.05}, {"op": "advance", "dt": 1.0},
           {"op": "request", "timeout": 0, "during": [], "inject": None}, {"op": "request", "timeout": 0, "during": [], "inject": None}]))
    # a nested Input entered and left, then a SIGINT (or a thread-safe event) that has to end a blocked request of the outer one
    nested_then_wake = st.tuples(st.booleans(), st.sampled_from([0.5, None]), st.sampled_from([0.0, 0.005, 0.2]),
                                 st.sampled_from(["sigint", "sigint", "ts"])).map(lambda t: [
        {"op": "nested_input", "sigint_event": t[0]},
        {"op": "request", "timeout": t[1], "inject": None,
         "during": [{"act": "sigint", "at": t[2]} if t[3] == "sigint" else {"act": "fire", "kind": "ts", "i": 0, "at": t[2]}]}])
    step = st.one_of(step, step, step, step, step, step, step, step, sched_race, sigint_race, sigint_between, sched_equal, nested_then_wake)

    def fix(case):
        if case.get("keynames", "bytes") != "bytes":
            # name modes: keypresses must never be cut (no bursts beyond the read size, no external reads)
            case["steps"] = [s_ for s_ in case["steps"] if isinstance(s_, list) or s_.get("op") != "unget"]
            big = any(len(h_.get("data") or "") > 1800 for s_ in case["steps"] if not isinstance(s_, list)
                      for h_ in [s_] + list(s_.get("during", [])) + ([s_["inject"]["act"]] if s_.get("inject") else []))
            if big:
                case["keynames"] = "bytes"
        flat = []
        for s_ in case["steps"]:
            flat.extend(s_ if isinstance(s_, list) else [s_])
        case["steps"] = flat
        if case["setup"] == "pty":  # 4 KiB pty buffer, single-threaded harness
            budget = 3000
            for s in case["steps"]:
                for holder in [s] + list(s.get("during", [])) + ([s["inject"]["act"]] if s.get("inject") else []):
                    if holder.get("data"):
                        raw = bytes.fromhex(holder["data"])[: max(budget, 0)]
                        # do not cut inside a character or sequence: fall back to ascii when truncated
                        if len(raw) < len(bytes.fromhex(holder["data"])):
                            raw = b"a" * len(raw)
                            holder["tokens"] = [1] * len(raw)
                        budget -= len(raw)
                        holder["data"] = raw.hex()
                if s["op"] == "request":
                    budget = 3000
        return case

    return st.fixed_dictionaries(
        {
            "setup": st.sampled_from(["pipe", "pipe", "pty"]),
            "paste_threshold": st.sampled_from([None, None, 0, 1, 8, 8, 100, 2000]),
            "sigint_event": st.booleans(),
            "keynames": st.sampled_from(["bytes", "bytes", "bytes", "curtsies", "curses"]),
            "bystander": st.sampled_from([False, False, True]),
            "overshoot": st.sampled_from([0.0, 0.0005, 0.0005]),
            "pre_enter_requests": st.lists(st.sampled_from([0, 0, 0.01]), max_size=2),
            "ctor_form": st.sampled_from([0, 0, 1, 2, 3, 3]),
            "keynames_enum": st.booleans(),
            "disable_terminal_start_stop": st.booleans(),
            "typeahead": st.one_of(st.none(), st.none(), payload_strategy(6).map(lambda t: {"data": t[0].hex(), "tokens": t[1]})),
            "steps": st.lists(step, min_size=1, max_size=15),
        }
    ).map(fix)


def straddle_cases(tier):
    """enumeration: every table sequence of >= 3 bytes (and two multi-byte characters) placed so that its first j bytes end a
    READ_SIZE-sized read (every j), as one burst; in paste mode (threshold 8) and outside it"""
    seqs = [t for t in token_pool() if len(t) >= 3] + ["∂".encode(), "\U0001f600".encode()]
    ms = (1, 2) if tier == "quick" else (1, 2, 3)
    for key in seqs:
        for j in range(1, len(key)):
            for m in ms:
                if tier == "quick" and m == 2 and (len(key) + j) % 3:
                    continue
                pad = 1024 * m - j
                data = b"a" * pad + key + b"zz"
                tokens = [1] * pad + [len(key), 1, 1]
                for thr in (8, None) if (tier == "thorough" or j == len(key) - 1) else (8,):
                    yield {"setup": "pipe", "paste_threshold": thr, "sigint_event": False, "overshoot": 0.0,
                           "steps": [{"op": "arrive", "data": data.hex(), "tokens": tokens}, {"op": "request", "timeout": 0, "during": [], "inject": None}]}


def history_cases():
    """the decoder's held bytes across the calls that touch them besides requests: bytes handed back with unget_bytes while
    others are still held, the context left and entered again, bytes typed before the context is entered - in every naming mode"""
    req = {"op": "request", "timeout": 0, "during": [], "inject": None}
    keys = [b"a", "é".encode(), b"\x1b[A", b"b", "\U0001f600".encode(), b"\x1b[1;5C"]
    data = b"".join(keys)
    toks = [len(k) for k in keys]
    for keynames in ("bytes", "curtsies", "curses"):
        for thr in (None, 8):
            base = {"paste_threshold": thr, "sigint_event": False, "overshoot": 0.0, "keynames": keynames, "ctor_form": 3 if thr == 8 else 0}
            # read two keys, fetch one, hand back further bytes (read by someone else): they come after the held one
            for k in range(1, len(keys) - 1):
                first, rest = b"".join(keys[:k + 1]), keys[k + 1:]
                yield dict(base, setup="pipe", steps=[{"op": "arrive", "data": first.hex(), "tokens": toks[:k + 1]}, req,
                                                       {"op": "unget", "data": b"".join(rest).hex(), "tokens": toks[k + 1:], "n": len(rest[0])}, req, req,
                                                       {"op": "unget", "data": None, "tokens": None, "n": 64}, req])
            for dtss in (False, True):
                # everything typed ahead of the context
                yield dict(base, setup="pty", disable_terminal_start_stop=dtss, typeahead={"data": data.hex(), "tokens": toks}, steps=[req])
                # read all, fetch one, leave and enter again (with and without a request in between)
                for outside in ([], [0]):
                    yield dict(base, setup="pty", disable_terminal_start_stop=dtss,
                               steps=[{"op": "arrive", "data": data.hex(), "tokens": toks}, req, {"op": "reenter", "requests_outside": outside}, req,
                                      {"op": "unget", "data": b"zq".hex(), "tokens": [1, 1], "n": 1}, {"op": "reenter", "requests_outside": []}, req])


def recovery_cases():
    """undecodable bytes, then well-formed keypresses that must all be delivered; with and without a second Input alive"""
    good = ["\x1b[A".encode(), "é".encode(), b"a", "\x1b[1;5C".encode()]
    for g in ["c341", "e228a1", "fffe", "f09f98", "e288", "c0af", "eda080", "80"]:
        for by in (False, True):
            yield {"setup": "pipe", "paste_threshold": None, "sigint_event": False, "overshoot": 0.0, "bystander": by,
                   "steps": [{"op": "arrive", "data": b"ab".hex(), "tokens": [1, 1]}, {"op": "request", "timeout": 0, "during": [], "inject": None},
                             {"op": "garbage", "data": g, "then": ["61", "1b5b41", "c3a9", "62"] if by else []},
                             {"op": "arrive", "data": b"".join(good).hex(), "tokens": [len(x) for x in good]},
                             {"op": "request", "timeout": 0, "during": [], "inject": None}]}


def campaign(col, tier, seed, shard, nshards):
    for i, case in enumerate(recovery_cases()):
        if i % nshards != shard:
            continue
        unknown = col.record(case, run_case(case), distinct=True, sample=False)
        if unknown:
            col.add_violation(case, unknown)
    for i, case in enumerate(straddle_cases(tier)):
        if i % nshards != shard:
            continue
        unknown = col.record(case, run_case(case), distinct=True, sample=False)
        if unknown:
            col.add_violation(case, unknown)
    for i, case in enumerate(history_cases()):
        if i % nshards != shard:
            continue
        unknown = col.record(case, run_case(case), distinct=True, sample=False)
        if unknown:
            col.add_violation(case, unknown)
    col.exhaustive["every_table_sequence_straddling_a_read_boundary_at_every_offset"] = True
    n = 2400 if tier == "quick" else 320000
    hyp_campaign(col, strategy(), run_case, max(n // nshards, 100), seed * 100 + shard)
