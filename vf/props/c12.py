"""C12 - Leaving any curtsies context restores terminal, tty and signal state."""
from __future__ import annotations

import contextlib
import fcntl
import os
import signal
import termios
import threading

from hypothesis import strategies as st

from ..cells import BLANK
from ..common import HarnessError, Res, exc_str, hyp_campaign, tb_tail
from ..refterm import OutStream, Pty, RefTerm, ScriptedIn
from ..simio import PointInjector, Patched, Sim, WouldBlockForever, close_trigger_fds, fd_count

PROP = "C12"
RULE = (
    "Hypothesis cases = (stack of 1-2 contexts from {Input, FullscreenWindow, CursorAwareWindow, Cbreak, Cbreak's Termmode, Nonblocking, "
    "Termmode}, options sigint_event/disable_terminal_start_stop/hide_cursor/keep_last_line, initial state, body, exit mode). Initial "
    "state: generated termios attributes on a fresh pty (iflag/oflag/lflag bits, VMIN/VTIME/VSTART/VSTOP, read back), file status flags "
    "(O_NONBLOCK, O_APPEND), pre-existing SIGINT handler (default, SIG_IGN, a Python function) and wake-up fd (none or a harness "
    "pipe). Body: 0-6 operations (renders, requests on the virtual-time harness with bytes, trigger calls). Exit: normal, raise after "
    "the k-th operation (every prefix), or SIGINT at the k-th interruption point of a request (KeyboardInterrupt under the default handler): the points are "
    "exactly where CPython can run a signal handler inside the library - entry of each function of curtsies/input.py and "
    "curtsies/termhelpers.py and the return of each call they make through os/select/signal/fcntl/termios/tty/time (a proxy makes the real "
    "call, then raises the signal, so the effect of the system call is done when the exception surfaces at the call site). Main and worker thread; the same case repeated up to 25x for the descriptor count. Oracle: before/after equality of "
    "tcgetattr, F_GETFL, getsignal(SIGINT), the wake-up fd, the number of open descriptors; F_GETFL after every request; reference "
    "terminal: cursor visible, main buffer active, main screen cells untouched (FullscreenWindow), nothing above the entry row "
    "touched (CursorAwareWindow). Non-trivial: exit by exception, a nested stack, or a non-default initial handler/flags."
    ' Context objects that allow it (Input, Cbreak, Nonblocking, Termmode) are entered again up to 3 times with the tty in a different state, another pre-existing SIGINT handler and the wake-up descriptor toggled (none / pipe) each time; requests may find up to 3000 bytes waiting; SIG_DFL among the pre-existing handlers.'
)
ASSUMPTIONS = [
    "descriptors created by threadsafe_event_trigger() belong to the returned callback (usable after the context is left) and are closed by the harness before counting",
    "reference terminal = xterm semantics (vf/refterm.py)",
]
SHARDS = {"quick": 8, "thorough": 16}

IFLAGS = {"ICRNL": termios.ICRNL, "IXON": termios.IXON, "BRKINT": termios.BRKINT, "ISTRIP": termios.ISTRIP, "INPCK": termios.INPCK}
OFLAGS = {"OPOST": termios.OPOST, "ONLCR": termios.ONLCR}
LFLAGS = {"ECHO": termios.ECHO, "ICANON": termios.ICANON, "ISIG": termios.ISIG, "IEXTEN": termios.IEXTEN, "ECHOE": termios.ECHOE}


class Boom(Exception):
    pass


class BoomWithArgs(Exception):
    """an application exception whose constructor has mandatory arguments (it cannot be re-created from its class alone)"""

    def __init__(self, code, detail):
        super().__init__(code, detail)
        self.code, self.detail = code, detail


def boom(kind):
    if kind == "args":
        return BoomWithArgs(3, "detail")
    if kind == "unicode":
        return UnicodeDecodeError("utf-8", b"\xff", 0, 1, "invalid start byte")
    return Boom()


class FdStream:
    def __init__(self, fd):
        self.fd = fd

    def fileno(self):
        return self.fd


def apply_initial(fd, init):
    attrs = termios.tcgetattr(fd)
    for name, on in init.get("iflag", {}).items():
        attrs[0] = (attrs[0] | IFLAGS[name]) if on else (attrs[0] & ~IFLAGS[name])
    for name, on in init.get("oflag", {}).items():
        attrs[1] = (attrs[1] | OFLAGS[name]) if on else (attrs[1] & ~OFLAGS[name])
    for name, on in init.get("lflag", {}).items():
        attrs[3] = (attrs[3] | LFLAGS[name]) if on else (attrs[3] & ~LFLAGS[name])
    cc = attrs[6]
    if "vmin" in init:
        cc[termios.VMIN] = bytes([init["vmin"]])
    if "vtime" in init:
        cc[termios.VTIME] = bytes([init["vtime"]])
    if init.get("vstart_off"):
        cc[termios.VSTART] = b"\x00"
    if init.get("vstop_alt"):
        cc[termios.VSTOP] = b"\x18"
    termios.tcsetattr(fd, termios.TCSANOW, attrs)
    fl = fcntl.fcntl(fd, fcntl.F_GETFL)
    if "NONBLOCK" in init.get("fl", []):
        fl |= os.O_NONBLOCK
    if "APPEND" in init.get("fl", []):
        fl |= os.O_APPEND
    fcntl.fcntl(fd, fcntl.F_SETFL, fl)


def recorded_handler(signum, frame):  # a pre-existing Python SIGINT handler
    recorded_handler.calls += 1


recorded_handler.calls = 0


def recorded_handler_2(signum, frame):  # another one, installed between two uses of the same context object
    recorded_handler.calls += 1


IO = {"read": {}}  # bytes the library read, per descriptor (filled by the read hook of the virtual-time substitution)


def one_run(case, res, sim):
    """enter the stack, run the body, leave; returns False if a violation ended the case"""
    import curtsies.input as ci
    from curtsies.termhelpers import Cbreak, Nonblocking, Termmode
    from curtsies.window import CursorAwareWindow, FullscreenWindow

    on_main = threading.current_thread() is threading.main_thread()
    h, w = 4, 8
    term = RefTerm(h, w)
    for i in range(case.get("history_lines", 2)):
        term.feed("h%d\r\n" % i)
    pty = Pty(h, w)
    os.set_blocking(pty.master, False)
    callbacks, inputs = [], []
    truncated = {}
    written = {"n": 0}
    IO["read"].pop(pty.slave, None)
    init = case.get("init", {})
    wake_r = wake_w = None
    try:
        apply_initial(pty.slave, init)
        old_handler = signal.getsignal(signal.SIGINT)
        pre_handler = old_handler
        handler_is_dfl = init.get("handler", "default") == "dfl"
        if on_main:
            hk = init.get("handler", "default")
            if hk == "ign":
                pre_handler = signal.SIG_IGN
            elif hk == "func":
                pre_handler = recorded_handler
            elif hk == "default":
                pre_handler = signal.default_int_handler
            elif hk == "dfl":
                pre_handler = signal.SIG_DFL  # (falsy enum value 0) - a real SIGINT would kill us: never raised in this state
            signal.signal(signal.SIGINT, pre_handler)
            pre_wakeup = -1
            if init.get("wakeup"):
                wake_r, wake_w = os.pipe()
                os.set_blocking(wake_w, False)
                pre_wakeup = wake_w
            signal.set_wakeup_fd(pre_wakeup, warn_on_full_buffer=False)
        before = {
            "termios": termios.tcgetattr(pty.slave),
            "fl": fcntl.fcntl(pty.slave, fcntl.F_GETFL),
        }
        main_before = [list(r) for r in term.main]
        tape_before = [list(r) for r in term.tape()]
        entry_tape_row = len(term.scrollback) + term.r
        stream = FdStream(pty.slave)
        out = OutStream(term, pty)
        opts = case.get("options", {})
        ctxs = []
        extra_fds, pipe_checks = [], []
        kinds = case["stack"]
        for kind in kinds:
            if kind == "Input":
                ikw = dict(sigint_event=opts.get("sigint_event", False), disable_terminal_start_stop=opts.get("disable_terminal_start_stop", False))
                if len(case.get("body", [])) % 2:
                    ikw = {k: v for k, v in ikw.items() if v}  # what equals the documented default (False) is left to the default
                c = ci.Input(in_stream=stream, keynames="bytes", **ikw)
                inputs.append(c)
            elif kind == "Fullscreen":
                c = FullscreenWindow(out_stream=out) if opts.get("hide_cursor", True) and len(case.get("body", [])) % 2 else \
                    FullscreenWindow(out_stream=out, hide_cursor=opts.get("hide_cursor", True))
            elif kind == "CursorAware":
                wkw = dict(hide_cursor=opts.get("hide_cursor", True), keep_last_line=opts.get("keep_last_line", False))
                if len(case.get("body", [])) % 2:
                    wkw = {k: v for k, v in wkw.items() if v != {"hide_cursor": True, "keep_last_line": False}[k]}
                c = CursorAwareWindow(out_stream=out, in_stream=ScriptedIn(term, pty), **wkw)
            elif kind == "Cbreak":
                c = Cbreak(stream)
            elif kind == "CbreakTermmode":
                c = "CbreakTermmode"
            elif kind == "Nonblocking":
                c = Nonblocking(stream)
            elif kind == "NonblockingPipe":
                # a stream whose status flags are exactly 0: the read end of a pipe
                pr, pw = os.pipe()
                extra_fds.extend([pr, pw])
                pipe_flags_before = fcntl.fcntl(pr, fcntl.F_GETFL)
                pipe_checks.append((pr, pipe_flags_before))
                c = Nonblocking(FdStream(pr))
            elif kind == "Termmode":
                a = termios.tcgetattr(pty.slave)
                a[3] = a[3] ^ termios.ECHO
                a[0] = a[0] ^ termios.ICRNL
                c = Termmode(stream, a)
            else:
                raise HarnessError(f"unknown context {kind}")
            ctxs.append((kind, c))
        reusable = all(k in ("Input", "Cbreak", "Nonblocking", "NonblockingPipe", "Termmode") for k in kinds)
        cycles = case.get("cycles", 1) if reusable else 1
        for cycle in range(cycles):
            if cycle:
                # the same context objects are used again; the tty is in a different state than the first time
                res.label("same_context_objects_reused")
                apply_initial(pty.slave, {"lflag": {"ECHO": cycle % 2 == 0, "ICANON": cycle % 2 == 1}, "iflag": {"ICRNL": cycle % 2 == 0},
                                          "vmin": cycle % 2, "vtime": 3 * (cycle % 2)})
                before = {"termios": termios.tcgetattr(pty.slave), "fl": fcntl.fcntl(pty.slave, fcntl.F_GETFL)}
                main_before = [list(r) for r in term.main]
                tape_before = [list(r) for r in term.tape()]
                entry_tape_row = len(term.scrollback) + term.r
                if on_main:
                    # ... and so are the program's SIGINT handler and wake-up descriptor: what has to be back afterwards is
                    # what was there when *this* use began, not what an earlier use of the same object found
                    rotation = [signal.default_int_handler, recorded_handler, signal.SIG_IGN, recorded_handler_2]
                    pre_handler = [h_ for h_ in rotation if h_ is not pre_handler][cycle % 3]
                    handler_is_dfl = False
                    signal.signal(signal.SIGINT, pre_handler)
                    if pre_wakeup == -1:
                        if wake_w is None:
                            wake_r, wake_w = os.pipe()
                            os.set_blocking(wake_w, False)
                        pre_wakeup = wake_w
                    else:
                        pre_wakeup = -1
                    signal.set_wakeup_fd(pre_wakeup, warn_on_full_buffer=False)
                    res.label("sigint_handler_and_wakeup_fd_changed_between_uses")
            ex = case.get("exit", {"mode": "normal"})
            body = case.get("body", [])
            left_by = "normal"
            windows = []
            try:
                with contextlib.ExitStack() as stack:
                    last_entered = None
                    for kind, c in ctxs:
                        if c == "CbreakTermmode":
                            if last_entered is None or not isinstance(last_entered, Termmode):
                                continue
                            stack.enter_context(last_entered)
                            continue
                        r = stack.enter_context(c)
                        last_entered = r
                        if kind in ("Fullscreen", "CursorAware"):
                            windows.append((kind, c))
                    for k, op in enumerate(body):
                        if ex["mode"] == "raise" and ex.get("after", 0) == k:
                            raise boom(ex.get("exc", "plain"))
                        if op["op"] == "render":
                            for kind, win in windows:
                                rows = ["r%d%s" % (i, "x" * (op.get("n", 2) % 4)) for i in range(op.get("n", 2))]
                                win.render_to_terminal(rows, (0, 0))
                        elif op["op"] == "request":
                            for inp in inputs:
                                if op.get("data"):
                                    payload = bytes.fromhex(op["data"])[:3000]
                                    outstanding = written["n"] - IO["read"].get(pty.slave, 0)
                                    if outstanding + len(payload) > 3500:
                                        # the tty's input queue holds 4095 bytes; what does not fit trickles in later, so that a
                                        # character may sit half in the queue when the library looks - not what this check is about
                                        res.label("pty_write_skipped_queue_nearly_full")
                                        payload = b""
                                    try:
                                        nw = os.write(pty.master, payload) if payload else 0
                                        written["n"] += nw
                                    except BlockingIOError:
                                        nw = 0
                                        res.label("pty_full_write_skipped")  # never block the single-threaded harness
                                    if 0 < nw < len(payload):
                                        # the tty's input queue filled up: the tail was not taken.  If that cut a multi-byte
                                        # character, the stream now ends in bytes no decoder can make sense of - the harness's
                                        # doing; a request rejecting them (ValueError) is then one more way of leaving by exception
                                        res.label("pty_short_write")
                                        try:
                                            payload[:nw].decode("utf-8")
                                        except UnicodeDecodeError:
                                            truncated["char"] = True
                                fl_pre = fcntl.fcntl(pty.slave, fcntl.F_GETFL)
                                sigint_safe = not handler_is_dfl or opts.get("sigint_event", False)
                                if ex["mode"] == "sigint" and ex.get("after", 0) == k and on_main and sigint_safe:
                                    def fire():
                                        signal.raise_signal(signal.SIGINT)
                                        for _ in range(3):
                                            pass
                                    inj = PointInjector(ex.get("point", ex.get("line", 5)), fire)
                                    try:
                                        with inj:
                                            inp.send(op.get("timeout", 0))
                                    finally:
                                        if inj.where:
                                            res.label("sigint_" + inj.where.replace(" ", "_"))
                                else:
                                    inp.send(op.get("timeout", 0))
                                fl_now = fcntl.fcntl(pty.slave, fcntl.F_GETFL)
                                if fl_now != fl_pre:
                                    res.viol("stream_flags_changed_by_request", before=fl_pre, now=fl_now, case=case)
                                    return False
                        elif op["op"] == "trigger":
                            for inp in inputs:
                                cb = inp.event_trigger(lambda **kw: "ev")
                                cb()
                        elif op["op"] == "threadsafe_trigger":
                            for inp in inputs:
                                cb = inp.threadsafe_event_trigger(lambda **kw: "tev")
                                callbacks.append((inp, cb))
                                cb()
                    if ex["mode"] == "raise" and ex.get("after", 0) >= len(body):
                        raise boom(ex.get("exc", "plain"))
            except (Boom, BoomWithArgs, UnicodeDecodeError):
                left_by = "exception"
            except KeyboardInterrupt:
                left_by = "keyboard_interrupt"
            except WouldBlockForever:
                left_by = "exception"
            except HarnessError:
                raise
            except Exception as e:  # noqa
                if truncated.get("char") and isinstance(e, ValueError) and "identify key sequence" in str(e):
                    left_by = "exception"
                    res.label("left_by_rejecting_a_character_the_harness_cut")
                else:
                    res.viol("context_or_body_raised", error=exc_str(e), where=tb_tail(e), case=case)
                    return False
            res.label("left_by_" + left_by)
            if left_by != "normal":
                res.nontrivial = True
            # ---- after leaving: everything must be back
            ctx = dict(case=case, left_by=left_by)
            after_t = termios.tcgetattr(pty.slave)
            if after_t != before["termios"]:
                diff = [i for i in range(7) if after_t[i] != before["termios"][i]]
                res.viol("tty_attributes_not_restored", fields=diff, **ctx)
                return False
            fl = fcntl.fcntl(pty.slave, fcntl.F_GETFL)
            if fl != before["fl"]:
                res.viol("file_status_flags_not_restored", before=before["fl"], after=fl, **ctx)
                return False
            if on_main:
                if signal.getsignal(signal.SIGINT) is not pre_handler:
                    res.viol("sigint_handler_not_restored", now=repr(signal.getsignal(signal.SIGINT))[:80], **ctx)
                    return False
                cur = signal.set_wakeup_fd(-1)
                signal.set_wakeup_fd(pre_wakeup, warn_on_full_buffer=False)  # reading it is destructive: put it back
                if cur != pre_wakeup:
                    res.viol("wakeup_fd_not_restored", now=cur, expected="pre-existing pipe" if pre_wakeup != -1 else -1, **ctx)
                    return False
            for pfd, pflags in pipe_checks:
                now_fl = fcntl.fcntl(pfd, fcntl.F_GETFL)
                if now_fl != pflags:
                    res.viol("file_status_flags_not_restored", stream="pipe read end", before=pflags, after=now_fl, **ctx)
                    return False
            if not term.cursor_visible:
                res.viol("cursor_left_hidden", **ctx)
                return False
            if term.in_alt:
                res.viol("alternate_screen_not_left", **ctx)
                return False
            if "Fullscreen" in kinds and "CursorAware" not in kinds and term.main != main_before:
                res.viol("main_screen_content_changed", **ctx)
                return False
            if "CursorAware" in kinds and term.tape()[:entry_tape_row] != tape_before[:entry_tape_row]:
                res.viol("content_above_entry_row_changed", **ctx)
                return False

        return True
    finally:
        if threading.current_thread() is threading.main_thread():
            signal.set_wakeup_fd(-1)
            signal.signal(signal.SIGINT, signal.default_int_handler)
        for inp, cb in callbacks:
            close_trigger_fds(inp, [cb])
        for inp in inputs:
            close_trigger_fds(inp, [])
        for fd in list(locals().get("extra_fds", [])) + [wake_r, wake_w]:
            if fd is not None:
                try:
                    os.close(fd)
                except OSError:
                    pass
        pty.close()


def run_case(case):
    from ..refterm import StreamExhausted

    try:
        return _run_case(case)
    except StreamExhausted as e:
        res = Res()
        res.viol("blocks_reading_a_report_the_terminal_never_sent", detail=str(e), case=case)
        return res


def _run_case(case):
    res = Res()
    sim = Sim()
    kinds = case["stack"]
    if len(kinds) >= 2:
        res.label("nested")
        res.nontrivial = True
    init = case.get("init", {})
    if init.get("handler", "default") != "default" or init.get("fl") or init.get("wakeup"):
        res.label("non_default_initial_state")
        res.nontrivial = True
    repeat = case.get("repeat", 1)

    def count_read(fd, n):
        IO["read"][fd] = IO["read"].get(fd, 0) + n

    def work():
        with Patched(sim, count_read):
            # warm-up run so that lazily created descriptors (terminfo etc.) do not count as leaks
            fds0 = None
            for i in range(repeat + 1):
                if i == 1:
                    fds0 = fd_count()
                ok = one_run(case, res, sim)
                if not ok:
                    return
            if repeat >= 1 and fds0 is not None:
                fds1 = fd_count()
                if fds1 != fds0:
                    res.viol("file_descriptors_leaked", before=fds0, after=fds1, runs=repeat, case=case)

    if case.get("thread"):
        res.label("worker_thread")
        err = []

        def target():
            try:
                work()
            except BaseException as e:  # noqa
                err.append(e)

        t = threading.Thread(target=target)
        t.start()
        t.join()
        if err:
            raise err[0]
    else:
        work()
    res.evals = repeat + 1
    return res


STACKS = [
    ["Input"], ["Input"], ["Fullscreen"], ["CursorAware"], ["Cbreak"], ["Nonblocking"], ["Termmode"], ["Cbreak", "CbreakTermmode"],
    ["Input", "Input"], ["Fullscreen", "Input"], ["CursorAware", "Input"], ["Input", "CursorAware"], ["Input", "Fullscreen"],
    ["Cbreak", "Nonblocking"], ["Input", "Nonblocking"], ["Termmode", "Input"], ["Cbreak", "Input"], ["NonblockingPipe"], ["Input", "NonblockingPipe"],
]


def strategy():
    flags = lambda names: st.dictionaries(st.sampled_from(sorted(names)), st.booleans(), max_size=3)
    init = st.fixed_dictionaries(
        {
            "iflag": flags(IFLAGS), "oflag": flags(OFLAGS), "lflag": flags(LFLAGS),
            "vmin": st.sampled_from([0, 1, 1, 5]), "vtime": st.sampled_from([0, 0, 3]),
            "vstart_off": st.booleans(), "vstop_alt": st.booleans(),
            "fl": st.lists(st.sampled_from(["NONBLOCK", "APPEND"]), max_size=2, unique=True),
            "handler": st.sampled_from(["default", "default", "ign", "func", "dfl"]),
            "wakeup": st.booleans(),
        }
    )
    op = st.one_of(
        st.fixed_dictionaries({"op": st.just("render"), "n": st.integers(0, 6)}),
        st.fixed_dictionaries({"op": st.just("request"), "timeout": st.sampled_from([0, 0, 0.01, 0.5]), "data": st.sampled_from([None, "61", "1b5b41", "c3a9", "61" * 30, "61" * 1024, "61" * 1500, "e28882" * 400, "61" * 2500])}),
        st.fixed_dictionaries({"op": st.just("trigger")}),
        st.fixed_dictionaries({"op": st.just("threadsafe_trigger")}),
    )
    exit_ = st.one_of(
        st.just({"mode": "normal"}),
        st.fixed_dictionaries({"mode": st.just("raise"), "after": st.integers(0, 6), "exc": st.sampled_from(["plain", "args", "unicode"])}),
        st.fixed_dictionaries({"mode": st.just("sigint"), "after": st.integers(0, 5), "point": st.one_of(st.sampled_from(range(1, 23)), st.integers(1, 150)), "aimed": st.sampled_from([True, True, True, False])}),
        st.fixed_dictionaries({"mode": st.just("sigint"), "after": st.integers(0, 5), "point": st.sampled_from(range(1, 23)), "aimed": st.sampled_from([True, True, True, False])}),
    )

    def aim(case):
        """a SIGINT exit is aimed at a request that exists: a stack with an Input on the main thread, and the index of a request op"""
        ex = case["exit"]
        if ex["mode"] == "sigint":
            if "Input" not in case["stack"]:
                case["stack"] = ["Input"] + [k for k in case["stack"] if k not in ("CbreakTermmode",)][:1]
            reqs = [i for i, op in enumerate(case["body"]) if op["op"] == "request"]
            if not reqs:
                case["body"].append({"op": "request", "timeout": 0, "data": ["61", "c3a9", "1b5b41", None][ex["after"] % 4]})
                reqs = [len(case["body"]) - 1]
            ex["after"] = reqs[ex["after"] % len(reqs)]
            if ex.pop("aimed", False):
                # the configuration in which the signal becomes a KeyboardInterrupt inside the request
                case["thread"] = False
                case["options"]["sigint_event"] = False
                case["init"]["handler"] = "default"
        return case

    return st.fixed_dictionaries(
        {
            "stack": st.sampled_from(STACKS),
            "options": st.fixed_dictionaries({"sigint_event": st.booleans(), "disable_terminal_start_stop": st.booleans(),
                                              "hide_cursor": st.booleans(), "keep_last_line": st.booleans()}),
            "init": init,
            "history_lines": st.integers(0, 5),
            "body": st.lists(op, max_size=6),
            "exit": exit_,
            "thread": st.sampled_from([False, False, False, True]),
            "repeat": st.sampled_from([1, 1, 1, 2, 25]),
            "cycles": st.sampled_from([1, 1, 2, 3]),
        }
    ).map(aim)


def campaign(col, tier, seed, shard, nshards):
    n = 4000 if tier == "quick" else 480000
    hyp_campaign(col, strategy(), run_case, max(n // nshards, 100), seed * 100 + shard)
