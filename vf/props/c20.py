"""C20 - Key naming modes and config-file key names are mutually consistent."""
from __future__ import annotations

import string

from hypothesis import strategies as st

from .. import keymodel as km
from ..common import Res, call, exc_str, hyp_campaign
from . import c03

PROP = "C20"
RULE = (
    "The C03 decision tree (ESC subtree complete; valid UTF-8 prefixes: quick <=2 bytes, thorough all) and Hypothesis byte strings "
    "are evaluated under all three naming modes in lock-step for encodings utf-8/ascii/latin-1 and both 'full' values; both tables "
    "entry by entry; configuration names: C-a..C-z, the documented specials C-[ C-^ C-_ plus C-\\ and C-], M-<c> for every printable "
    "non-whitespace ASCII character, F1..F12 (exhaustive, 128 names) and a catalogue of invalid names. Oracle: modes agree on "
    "{None, key, exception type}; bytes naming returns exactly the bytes; curses table keys subset of curtsies table keys; every "
    "name keymap[k] yields is in the set P of names the decoder actually produces (computed by driving every table sequence and "
    "every single byte through the incremental driver under each encoding); keymap[''] == (); invalid names raise KeyError or map "
    "outside P, nothing else. Non-trivial: tree nodes at depth >=2; config names from each family."
    ' The lock-step enumeration is repeated under other spellings of the three encodings.'
)
ASSUMPTIONS = [
    "a config value cannot end in a space (ConfigParser strips it), so M-<space> is not a nameable key; C-<letter> means lower-case letters as in bpython's config",
    "P is computed from the decoder itself, so a name is 'producible' iff some table sequence or byte, fed alone as one read, yields it",
]
SHARDS = {"quick": 8, "thorough": 16}
MODES = c03.MODES


def lockstep(seq, enc, full):
    """-> None or (kind, detail)"""
    outs = {m: c03.outcome(seq, enc, m, full) for m in MODES}
    sig = {m: (k, type(v).__name__ if k == "exc" else None) for m, (k, v) in outs.items()}
    if len(set(sig.values())) != 1:
        return "modes_cut_differently", {m: f"{k}:{t}" if t else k for m, (k, t) in sig.items()}
    k, v = outs["bytes"]
    if k == "key" and v != seq:
        return "bytes_naming_not_the_bytes", repr(v)[:60]
    return None


_P = None


def producible():
    global _P
    if _P is None:
        P = set()
        T = km.tables()
        for enc in km.ENCODINGS:
            for t in sorted(T.table) + [bytes([b]) for b in range(256)]:
                emitted, pending, err, _ = c03.drive([t], enc, "curtsies")
                if err is None:
                    for _, kb, name, _ in emitted:
                        P.add(name)
        _P = P
    return _P


def valid_config_names():
    names = [("C-letter", "C-" + c) for c in string.ascii_lowercase]
    names += [("special", k) for k in ("C-[", "C-^", "C-_", "C-\\", "C-]")]
    names += [("M-char", "M-" + chr(c)) for c in range(0x21, 0x7F)]
    names += [("F-key", "F%d" % n) for n in range(1, 13)]
    return names


INVALID = ["x", "F", "ctrl-a", "C-", "M-", "Fx", "F1x", "C", "M", "-", "f1", "C-aa", "Ctrl-a", "<F1>", "F-1", " "]


def run_case(case):
    res = Res()
    kind = case["kind"]
    if kind == "lockstep":
        seq = bytes.fromhex(case["seq"])
        v = lockstep(seq, case["enc"], case["full"])
        res.nontrivial = len(seq) >= 2
        if v:
            res.viol(v[0], detail=v[1], seq=case["seq"], enc=case["enc"], full=case["full"])
    elif kind == "walk":
        data = bytes.fromhex(case["data"])
        res.label("generated_walk")
        for n in range(1, len(data) + 1):
            seq = data[:n]
            stop = False
            for full in (False, True):
                v = lockstep(seq, case["enc"], full)
                res.evals += 1
                if v:
                    res.viol(v[0], detail=v[1], seq=seq.hex(), enc=case["enc"], full=full)
                if not full and c03.outcome(seq, case["enc"], "bytes", False)[0] != "none":
                    stop = True
            if n >= 2:
                res.nontrivial = True
            if stop:
                break
    elif kind == "tables":
        from curtsies import events

        missing = sorted(k.hex() for k in events.CURSES_NAMES if k not in events.CURTSIES_NAMES)
        if missing:
            res.viol("curses_name_without_curtsies_name", sequences=missing[:10])
        for k, v in list(events.CURTSIES_NAMES.items()) + list(events.CURSES_NAMES.items()):
            if not isinstance(k, bytes) or not isinstance(v, str):
                res.viol("table_entry_types", key=repr(k), value=repr(v))
        res.nontrivial = True
        res.label("tables")
    elif kind == "config":
        from curtsies.configfile_keynames import keymap

        name = case["name"]
        res.label("config_" + case.get("family", "?"))
        res.nontrivial = True
        out, e = call(lambda: keymap[name])
        if e is not None:
            res.viol("valid_config_name_raised", name=name, error=exc_str(e))
        elif not isinstance(out, tuple) or not out:
            res.viol("valid_config_name_maps_to_nothing", name=name, got=repr(out))
        else:
            P = producible()
            dead = [n for n in out if n not in P]
            if dead:
                res.viol("config_name_maps_to_unproducible_key", name=name, names=list(out), unproducible=dead)
    elif kind == "config_invalid":
        from curtsies.configfile_keynames import keymap

        name = case["name"]
        res.label("config_invalid")
        first = None
        for _ in range(case.get("lookups", 1) - 1):
            o_, e_ = call(lambda: keymap[name])  # the same name looked up before: the answer must not depend on that
            first = first or (("exc", type(e_).__name__) if e_ is not None else ("ok", o_))
        out, e = call(lambda: keymap[name])
        if first is not None and first != ((("exc", type(e).__name__) if e is not None else ("ok", out))):
            res.viol("config_lookup_not_repeatable", name=name, first=repr(first), later=exc_str(e) if e is not None else repr(out))
        if name == "":
            if e is not None or out != ():
                res.viol("unbound_key_not_empty", got=repr(out), error=exc_str(e) if e else "")
        elif e is not None:
            if not isinstance(e, KeyError):
                res.viol("invalid_config_name_crashes", name=name, error=exc_str(e))
        else:
            P = producible()
            live = [n for n in out if n in P]
            if live:
                res.viol("invalid_config_name_maps_to_real_key", name=name, names=list(out))
        res.nontrivial = True
    return res


def strategy():
    enc = st.sampled_from(km.ENCODINGS + km.ENCODINGS + km.ALIASES)
    seqs = sorted(km.tables().table)
    data = st.one_of(
        st.binary(min_size=1, max_size=7),
        st.tuples(st.sampled_from(seqs), st.binary(max_size=2)).map(lambda t: t[0] + t[1]),
        st.tuples(st.integers(0xC0, 0xFF), st.binary(min_size=1, max_size=5)).map(lambda t: bytes([t[0]]) + t[1]),
    )
    return st.fixed_dictionaries({"kind": st.just("walk"), "enc": enc, "data": data.map(bytes.hex)})


def campaign(col, tier, seed, shard, nshards):
    def go(case, sample=False):
        unknown = col.record(case, run_case(case), distinct=True, sample=sample)
        if unknown:
            col.add_violation(case, unknown)

    if shard == 0:
        go({"kind": "tables"}, sample=True)
        fam_seen = set()
        for fam, name in valid_config_names():
            go({"kind": "config", "name": name, "family": fam}, sample=fam not in fam_seen)
            fam_seen.add(fam)
        for name in [""] + INVALID:
            go({"kind": "config_invalid", "name": name, "lookups": 3}, sample=(name == "F"))
        for fam, name in valid_config_names():
            go({"kind": "config", "name": name, "family": fam, "again": True})
        col.exhaustive["config_names"] = True
    for enc in km.ENCODINGS + km.ALIASES:
        nodes = c03.tree_nodes(enc, tier)
        nev = nnt = 0
        for node in nodes[shard::nshards]:
            for nb in range(256):
                child = node + bytes([nb])
                for full in (False, True):
                    v = lockstep(child, enc, full)
                    nev += 1
                    if len(child) >= 2:
                        nnt += 1
                    if v:
                        case = {"kind": "lockstep", "seq": child.hex(), "enc": enc, "full": full}
                        unknown = col.record(case, run_case(case), distinct=True, sample=False)
                        col.evaluations -= 1
                        col.cases -= 1
                        if unknown:
                            col.add_violation(case, unknown)
        col.bulk(nev, nontrivial=nnt, labels={f"lockstep_{enc}": nev})
    if shard == 1 % nshards:
        col.add_sample({"kind": "lockstep", "seq": "1b5b31", "enc": "utf-8", "full": True}, ["lockstep"])
    col.exhaustive["esc_subtree_lockstep"] = True
    col.exhaustive["utf8_valid_prefix_tree_lockstep"] = tier == "thorough"
    n = 4000 if tier == "quick" else 1600000
    hyp_campaign(col, strategy(), run_case, max(n // nshards, 100), seed * 100 + shard)
