"""C03 - Key decoding splits any byte stream losslessly into correctly named keys."""
from __future__ import annotations

from hypothesis import strategies as st

from .. import keymodel as km
from ..common import Res, hyp_campaign, exc_str

PROP = "C03"
RULE = (
    "(1) decision-tree enumeration: from the root, every node all of whose proper prefixes made get_key(full=False) return None is "
    "expanded with every next byte 0..255, for full in {False, True}: the ESC-rooted subtree completely, and under utf-8 the subtree "
    "along valid encodings (all proper prefixes of valid characters; quick: up to 2-byte prefixes, thorough: all 17.6k) - off the "
    "valid paths (decoder waiting on garbage, ~2^40 leaves) is sampled by Hypothesis; encodings utf-8/ascii/latin-1 x 3 naming modes. "
    "(2) cross products through an incremental driver mirroring Input.find_key: every table sequence alone, followed by each of the "
    "256 bytes, followed by every other table sequence (quick: sampled), every Unicode scalar value (quick: 24k sample). (3) Hypothesis "
    "token streams (table sequences, characters of 1-4 bytes, fragments, raw bytes) with a generated partition into reads. Oracle: "
    "validity predicates from an independent tokeniser (vf/keymodel.py): lossless under bytes naming, no exception on well-formed "
    "input, None only while the bytes can still grow, whole table sequences under their table name, merging only after a table "
    "sequence that is a proper prefix of a longer one, characters as themselves. Non-trivial: tree nodes at depth >=2; streams with "
    ">=1 multi-byte token where the decoder had to wait."
    ' The same enumeration is repeated under other spellings of the three encodings (UTF-8, utf8, ANSI_X3.4-1968, US-ASCII, ISO-8859-1, latin1); an end-to-end stage feeds every table sequence straddling a read-size boundary through Input.send (C08 harness).'
)
ASSUMPTIONS = [
    "the two name tables are the specification of 'table name' and are read from the code under test as data",
    "under utf-8 single bytes >=0x80 count as recognised (8-bit Meta) only when they end a read (the quantifier's carve-out)",
    "for input that is not well-formed an exception from the decoder is an accepted rejection; only losslessness of returned keys is asserted there",
    "the driver carries bytes left pending at the end of a read over to the next read (what Input does with them is C08's concern)",
]
SHARDS = {"quick": 8, "thorough": 16}
MODES = ("curtsies", "curses", "bytes")


def _modes():
    from curtsies.events import Keynames

    return {"curtsies": Keynames.CURTSIES, "curses": Keynames.CURSES, "bytes": Keynames.BYTES}


_MODEMAP = None
_BYTE = [bytes([i]) for i in range(256)]


def outcome(seq: bytes, enc, mode, full):
    global _MODEMAP
    from curtsies.events import get_key

    if _MODEMAP is None:
        _MODEMAP = _modes()
    try:
        bs = [_BYTE[b] for b in seq]
        # the same call spelt in the ways the signature allows: everything by keyword, positionally, or relying on the defaults
        # (keynames = curtsies names, full = False) where the wanted values are the defaults
        form = (len(seq) + seq[-1]) % 3 if seq else 0
        if form == 1 and mode == "curtsies" and not full:
            r = get_key(bs, enc)
        elif form == 1 and not full:
            r = get_key(bs, enc, _MODEMAP[mode])
        elif form == 2:
            r = get_key(bs, enc, _MODEMAP[mode], full)
        else:
            r = get_key(bs, enc, keynames=_MODEMAP[mode], full=full)
    except Exception as e:  # noqa
        return "exc", e
    return ("none", None) if r is None else ("key", r)


def judge(seq, enc, mode, full, kind, val):
    """-> None or (violation kind, detail) for one decoder call whose proper prefixes all returned None"""
    T = km.tables()
    in_table = seq in T.table
    tprefix = seq in T.prefixes
    cclass = km.char_class(seq, enc)
    meta_collision = km.canon(enc) == "utf-8" and len(seq) == 1 and seq[0] >= 0x80
    if kind == "exc":
        if len(seq) > T.maxlen and isinstance(val, ValueError):
            return None
        if km.wellformed_prefix(seq, enc, full):
            return "raised_on_wellformed_input", exc_str(val)
        return None
    if kind == "none":
        if in_table and full:
            return "whole_table_sequence_not_reported", "full=True"
        if in_table and not tprefix and not meta_collision:
            return "whole_table_sequence_not_reported", "not a prefix of a longer sequence"
        if cclass == "char" and not tprefix and not meta_collision:
            return "whole_character_not_reported", ""
        if km.wellformed_prefix(seq, enc, full) and not (tprefix or cclass == "prefix"):
            return "waits_although_bytes_cannot_grow", ""
        return None
    # a key was returned
    if mode == "bytes":
        if val != seq:
            return "bytes_naming_not_the_bytes", repr(val)[:60]
    if tprefix and not full:
        return "key_returned_for_proper_table_prefix", repr(val)[:60]
    if in_table or cclass == "char":
        exp = km.expected_name(seq, enc, mode)
        if exp is not None and val != exp:
            return "wrong_name", f"got {val!r} expected {exp!r}"
        return None
    # neither one table sequence nor one character: a merge
    if km.wellformed_prefix(seq, enc, full) or km.starts_with_growing_table_seq(seq):
        if not km.starts_with_growing_table_seq(seq):
            return "merged_without_licence", repr(val)[:60]
        if mode != "bytes":
            try:
                exp = seq.decode(enc)
            except UnicodeDecodeError:
                exp = None
            if exp is not None and val != exp:
                return "merged_key_wrong_name", f"got {val!r} expected {exp!r}"
    return None


# ---------------------------------------------------------------------------------------
# incremental driver mirroring Input.find_key


def drive(reads, enc, mode):
    """-> (emitted [(offset, bytes, name, spans_reads)], pending bytes, error or None, calls)"""
    emitted, pending, off = [], b"", 0
    waited = False
    for chunk in reads:
        buf = pending + chunk
        start_of_buf = off - len(pending)
        i, n = 0, len(buf)
        cur_start = 0
        while i < n:
            i += 1
            seq = buf[cur_start:i]
            kind, val = outcome(seq, enc, mode, full=(i == n))
            if kind == "exc":
                return emitted, buf[cur_start:], (seq, val, i == n), waited
            if kind == "key":
                emitted.append((start_of_buf + cur_start, seq, val, cur_start < len(pending)))
                cur_start = i
            else:
                waited = True
        pending = buf[cur_start:]
        off += len(chunk)
    return emitted, pending, None, waited


def run_stream(case, res):
    enc, mode = case["enc"], case["mode"]
    T = km.tables()
    reads, whole = [], {}
    off = 0
    multi = False
    for r in case["reads"]:
        rb = b""
        for kind, hx in r:
            b = bytes.fromhex(hx)
            if kind in ("T", "C") and b:
                whole[off + len(rb)] = (kind, b, len(reads))
                if len(b) > 1:
                    multi = True
            rb += b
        reads.append(rb)
        off += len(rb)
    data = b"".join(reads)
    emitted, pending, err, waited = drive(reads, enc, mode)
    res.evals = max(1, len(data))
    if len(reads) > 1:
        res.label("multi_read")
    if multi and waited:
        res.nontrivial = True
        res.label("waited_on_multibyte")
    # well-formedness read by read (with what was actually carried over)
    got = b"".join(k for _, k, _, _ in emitted)
    if err is None:
        if got + pending != data:
            res.viol("bytes_lost_duplicated_or_reordered", case=case, got=got.hex(), pending=pending.hex(), data=data.hex())
            return
    else:
        seq, e, full = err
        if not data.startswith(got):
            res.viol("bytes_lost_duplicated_or_reordered", case=case, got=got.hex(), data=data.hex())
            return
        # the failing read, judged by the independent tokeniser
        consumed = len(got)
        # find the read in which the failure happened and the buffer the decoder saw
        acc = 0
        for rb in reads:
            acc += len(rb)
            if acc >= consumed + len(seq):
                break
        buf_end = acc
        whole_buf = data[consumed:buf_end]
        if km.wellformed_prefix(data[consumed - 0 : buf_end], enc, True) and _reads_wellformed(reads, enc):
            res.viol("raised_on_wellformed_input", case=case, pending=seq.hex(), trigger=seq[-1], full=full, error=exc_str(e))
        res.label("decoder_raised")
    for o, kb, name, spans in emitted:
        if mode == "bytes" and name != kb:
            res.viol("bytes_naming_not_the_bytes", case=case, key=kb.hex(), got=repr(name)[:60])
            return
        tok = whole.get(o)
        one_table = kb in T.table
        one_char = km.char_class(kb, enc) == "char"
        if tok is not None and not spans:
            kind, tb, ridx = tok
            if not kb.startswith(tb):
                # may legitimately be shorter only if the read ended inside the token - whole tokens lie inside one read
                res.viol("recognised_sequence_broken_up", case=case, token=tb.hex(), key=kb.hex())
                return
            if kb != tb:
                if kind == "C" or tb not in T.prefixes:
                    res.viol("merged_with_what_follows", case=case, token=tb.hex(), key=kb.hex())
                    return
            else:
                exp = km.expected_name(tb, enc, mode)
                if exp is not None and name != exp:
                    res.viol("wrong_name", case=case, token=tb.hex(), got=repr(name)[:60], expected=repr(exp)[:60])
                    return
        if not one_table and not one_char and _reads_wellformed(reads, enc):
            if not km.starts_with_growing_table_seq(kb):
                res.viol("merged_without_licence", case=case, key=kb.hex())
                return
            if mode != "bytes":
                try:
                    exp = kb.decode(enc)
                except UnicodeDecodeError:
                    exp = None
                if exp is not None and name != exp:
                    res.viol("merged_key_wrong_name", case=case, key=kb.hex(), got=repr(name)[:60])
                    return


def _reads_wellformed(reads, enc):
    """every read is tokens + optionally a >=2-byte proper prefix of a character that the next read completes"""
    carry = b""
    for rb in reads:
        buf = carry + rb
        if not km.wellformed_prefix(buf, enc, True):
            return False
        # what would be carried: longest suffix that is a >=2 byte char prefix (the decoder keeps waiting on it)
        carry = b""
        for k in (3, 2):
            if len(buf) >= k and km.char_class(buf[-k:], enc) == "prefix" and km.wellformed_prefix(buf[:-k], enc, False):
                carry = buf[-k:]
                break
    return True


def run_case(case):
    res = Res()
    if case["kind"] == "node":
        seq = bytes.fromhex(case["seq"])
        kind, val = outcome(seq, case["enc"], case["mode"], case["full"])
        v = judge(seq, case["enc"], case["mode"], case["full"], kind, val)
        res.nontrivial = len(seq) >= 2
        if v:
            res.viol(v[0], detail=v[1], seq=case["seq"], enc=case["enc"], mode=case["mode"], full=case["full"], outcome=kind,
                     pending=seq[:-1].hex(), trigger=seq[-1], error=v[1] if kind == "exc" else "")
    else:
        run_stream(case, res)
    return res


# ---------------------------------------------------------------------------------------
# known finding matcher


def match_esc_prefix_then_highbyte(case, v):
    """decoder raised UnicodeDecodeError AND the pending bytes are a proper table prefix starting with ESC AND the byte
    that triggered it is >= 0x80 (D10)"""
    if v.get("kind") != "raised_on_wellformed_input" or "UnicodeDecodeError" not in v.get("error", ""):
        return False
    pending = bytes.fromhex(v.get("pending", ""))
    if "seq" not in v:  # stream: 'pending' includes the trigger byte
        pending = pending[:-1]
    return (
        pending[:1] == b"\x1b" and pending in km.tables().prefixes and isinstance(v.get("trigger"), int) and v["trigger"] >= 0x80
    )


MATCHERS = {"esc-prefix-then-highbyte": match_esc_prefix_then_highbyte}


# ---------------------------------------------------------------------------------------
# enumeration


def tree_nodes(enc, tier):
    """nodes to expand: root, the ESC subtree (discovered by driving the decoder), valid UTF-8 prefixes"""
    nodes, queue = [b""], [b""]
    while queue:
        node = queue.pop(0)
        for nb in range(256):
            child = node + _BYTE[nb]
            if child[0] != 0x1B:
                continue
            kind, _ = outcome(child, enc, "bytes", False)
            # follow the decoder where it waits - but only along prefixes the tables justify, so the walk stays finite
            # even when the code under test waits on anything (a child that waits without justification is judged when
            # its parent is expanded)
            if kind == "none" and len(child) <= km.tables().maxlen and child in km.tables().prefixes:
                nodes.append(child)
                queue.append(child)
    if km.canon(enc) == "utf-8":
        pre = km.utf8_valid_prefixes()
        if tier == "quick" or enc != "utf-8":
            pre = [p for p in pre if len(p) <= (2 if enc == "utf-8" else 1)]
        nodes += pre
    return nodes


def enum_tree(col, tier, shard, nshards):
    for enc in km.ENCODINGS + km.ALIASES:
        nodes = tree_nodes(enc, tier)
        mine = nodes[shard::nshards]
        for mode in MODES:
            nev = nnt = 0
            for node in mine:
                for nb in range(256):
                    child = node + _BYTE[nb]
                    for full in (False, True):
                        kind, val = outcome(child, enc, mode, full)
                        v = judge(child, enc, mode, full, kind, val)
                        nev += 1
                        if len(child) >= 2:
                            nnt += 1
                        if v:
                            case = {"kind": "node", "seq": child.hex(), "enc": enc, "mode": mode, "full": full}
                            unknown = col.record(case, run_case(case), distinct=True, sample=False)
                            col.evaluations -= 1
                            col.cases -= 1
                            if unknown:
                                col.add_violation(case, unknown)
            col.bulk(nev, nontrivial=nnt, labels={f"tree_{enc}": nev})
        col.extra[f"tree_nodes_expanded_{enc}"] = len(nodes)
    if shard == 0:
        col.add_sample({"kind": "node", "seq": "1b5b313b", "enc": "utf-8", "mode": "curtsies", "full": False}, ["tree"])
    col.exhaustive["esc_subtree_all_encodings_modes_full"] = True
    col.exhaustive["utf8_valid_prefix_tree"] = tier == "thorough"


def stream_case(enc, mode, reads):
    return {"kind": "stream", "enc": enc, "mode": mode, "reads": reads}


def enum_cross(col, tier, shard, nshards, seed):
    T = km.tables()
    seqs = sorted(T.table)
    i = 0

    def go(case, sample=False):
        unknown = col.record(case, run_case(case), distinct=True, sample=sample)
        if unknown:
            col.add_violation(case, unknown)

    for enc in km.ENCODINGS + km.ALIASES[2:4]:
        for mode in MODES:
            for t in seqs:
                i += 1
                if i % nshards != shard:
                    continue
                meta_u8 = km.canon(enc) == "utf-8" and len(t) == 1 and t[0] >= 0x80
                go(stream_case(enc, mode, [[["T", t.hex()]]]), sample=(i % 997 == 1))
                if meta_u8:
                    continue
                for b in range(256):
                    go(stream_case(enc, mode, [[["T", t.hex()], ["X", _BYTE[b].hex()]]]))
    col.exhaustive["table_seq_x_next_byte"] = True
    # table sequence followed by table sequence
    step = 1 if tier == "thorough" else 37
    j = 0
    for enc in km.ENCODINGS:
        for a in seqs:
            if enc == "utf-8" and len(a) == 1 and a[0] >= 0x80:
                continue
            for b in seqs:
                j += 1
                if j % nshards != shard or (j // nshards) % step != (seed % step):
                    continue
                go(stream_case(enc, "curtsies" if j % 2 else "bytes", [[["T", a.hex()], ["T", b.hex()]]]), sample=(j % 49999 == 1))
    col.exhaustive["table_seq_x_table_seq"] = tier == "thorough"
    # unicode scalars
    stride = 1 if tier == "thorough" else 47
    for cp in range(shard, 0x110000, nshards):
        if 0xD800 <= cp <= 0xDFFF:
            continue
        if stride > 1 and (cp // nshards) % stride != (seed % stride) and cp > 0x800:
            continue
        ch = chr(cp)
        go(stream_case("utf-8", MODES[cp % 3], [[["C", ch.encode("utf-8").hex()]]]), sample=(cp % 200003 == 5))
        if cp < 0x100:
            go(stream_case("latin-1", MODES[cp % 3], [[["C", ch.encode("latin-1").hex()]]]))
        if cp < 0x80:
            go(stream_case("ascii", MODES[cp % 3], [[["C", ch.encode("ascii").hex()]]]))
    col.exhaustive["all_unicode_scalars"] = tier == "thorough"


def token_strategy(enc):
    T = km.tables()
    seqs = sorted(T.table)
    if enc == "utf-8":
        chars = st.one_of(
            st.characters(min_codepoint=0x20, max_codepoint=0x7E),
            st.characters(min_codepoint=0x80, max_codepoint=0x7FF),
            st.characters(min_codepoint=0x800, max_codepoint=0xFFFF, exclude_categories=["Cs"]),
            st.characters(min_codepoint=0x10000, max_codepoint=0x10FFFF),
        )
    elif enc == "latin-1":
        chars = st.characters(min_codepoint=0, max_codepoint=0xFF)
    else:
        chars = st.characters(min_codepoint=0, max_codepoint=0x7F)
    esc_seqs = [s for s in seqs if len(s) > 2]
    tab = st.sampled_from(seqs).filter(lambda t: not (enc == "utf-8" and len(t) == 1 and t[0] >= 0x80))
    tok_t = st.one_of(tab, st.sampled_from(esc_seqs)).map(lambda t: ["T" if True else "", t.hex()])
    tok_c = chars.map(lambda c: ["T" if c.encode(enc) in T.table else "C", c.encode(enc).hex()])
    frag = st.one_of(
        st.sampled_from(esc_seqs).flatmap(lambda t: st.integers(1, len(t) - 1).map(lambda k: ["X", t[:k].hex()])),
        st.sampled_from(esc_seqs).flatmap(lambda t: st.integers(1, len(t) - 1).map(lambda k: ["X", t[k:].hex()])),
        st.binary(min_size=1, max_size=3).map(lambda b: ["X", b.hex()]),
    )
    return st.one_of(tok_t, tok_c, tok_t, tok_c, frag)


def strategy():
    def for_enc(enc):
        read = st.lists(token_strategy(enc), min_size=0, max_size=6)
        return st.fixed_dictionaries(
            {"kind": st.just("stream"), "enc": st.just(enc), "mode": st.sampled_from(MODES), "reads": st.lists(read, min_size=1, max_size=4)}
        )

    garbage_node = st.fixed_dictionaries(
        {
            "kind": st.just("node_path"),
            "enc": st.just("utf-8"),
            "mode": st.sampled_from(MODES),
            "lead": st.integers(0xC0, 0xFF),
            "rest": st.binary(min_size=1, max_size=5),
        }
    )
    return st.one_of(for_enc("utf-8"), for_enc("utf-8"), for_enc("ascii"), for_enc("latin-1"), garbage_node)


def run_case_any(case):
    if case["kind"] != "node_path":
        return run_case(case)
    # sampled walk off the valid UTF-8 paths: follow the decoder while it keeps waiting, judge every call
    res = Res()
    data = bytes([case["lead"]]) + case["rest"]
    res.label("garbage_walk")
    for n in range(1, len(data) + 1):
        seq = data[:n]
        stop = False
        for full in (False, True):
            kind, val = outcome(seq, case["enc"], case["mode"], full)
            v = judge(seq, case["enc"], case["mode"], full, kind, val)
            res.evals += 1
            if v:
                res.viol(v[0], detail=v[1], seq=seq.hex(), enc=case["enc"], mode=case["mode"], full=full, outcome=kind,
                         pending=seq[:-1].hex(), trigger=seq[-1], error=v[1] if kind == "exc" else "")
            if not full and kind != "none":
                stop = True
        if n >= 2:
            res.nontrivial = True
        if stop:
            break
    return res


def enum_end_to_end(col, tier, shard, nshards):
    """the real feeder: Input.send over a pipe (C08's harness and queue model); every table sequence straddling a
    read-size boundary at every offset, in and outside paste mode - 'a recognised sequence that arrives whole is one keypress'"""
    from . import c08

    n = 0
    import itertools

    for i, case in enumerate(itertools.chain(c08.recovery_cases(), c08.history_cases(), c08.straddle_cases(tier))):
        if i % nshards != shard:
            continue
        r = c08.run_case(case)
        n += 1
        res = Res(labels={"end_to_end_through_Input"}, nontrivial=True, evals=r.evals)
        for v in r.violations:
            res.viol("end_to_end_" + v.get("kind", "?"), detail={k: v[k] for k in v if k not in ("case",)})
        wrapped = {"kind": "end_to_end", "c08_case": case}
        unknown = col.record(wrapped, res, distinct=True, sample=(n == 1))
        if unknown:
            col.add_violation(wrapped, unknown)


def campaign(col, tier, seed, shard, nshards):
    enum_tree(col, tier, shard, nshards)
    enum_end_to_end(col, tier, shard, nshards)
    enum_cross(col, tier, shard, nshards, seed)
    n = 4000 if tier == "quick" else 200000
    hyp_campaign(col, strategy(), run_case_any, max(n // nshards, 100), seed * 100 + shard)
    if tier == "thorough":
        import sys as _sys

        from ..common import fuzz_stage

        fuzz_stage(col, _sys.modules[__name__], 100000 // nshards, seed * 100 + shard)


_plain_run_case = run_case


def run_case(case):  # noqa: F811  (replay entry point handles every case kind)
    if case.get("kind") == "end_to_end":
        from . import c08

        r = c08.run_case(case["c08_case"])
        res = Res(labels={"end_to_end_through_Input"}, nontrivial=True, evals=r.evals)
        for v in r.violations:
            res.viol("end_to_end_" + v.get("kind", "?"), detail={k: v[k] for k in v if k not in ("case",)})
        return res
    if case.get("kind") == "node_path":
        return run_case_any(case)
    return _plain_run_case(case)
