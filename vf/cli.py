"""./run <ID> <quick|thorough> [--replay file]"""
from __future__ import annotations

import glob
import importlib
import json
import multiprocessing as mp
import os
import sys
import time
import traceback

from . import common
from .common import Collector, HarnessError, Stop, EXIT_OK, EXIT_VIOLATION, EXIT_HARNESS


def _load(prop):
    common.import_repo()
    return importlib.import_module(f"vf.props.{prop.lower()}")


def _watchdog(prop, tier):
    """a hung check is a broken check: after a generous wall-clock budget give up with a harness error (exit 2) instead of
    hanging forever.  This is not a verdict: it never prints VIOLATION."""
    import threading

    budget = float(os.environ.get("VERIF_WATCHDOG_S", "2400" if tier == "quick" else "21600"))

    def fire():
        sys.stderr.write(f"HARNESS-ERROR property={prop}: no result within {budget:.0f}s wall clock - giving up (inconclusive)\n")
        sys.stderr.flush()
        os._exit(EXIT_HARNESS)

    t = threading.Timer(budget, fire)
    t.daemon = True
    t.start()
    return t


def _shard_worker(args):
    prop, tier, seed, shard, nshards = args
    _watchdog(prop, tier)
    try:
        mod = _load(prop)
        col = Collector(prop, tier, seed, getattr(mod, "MATCHERS", None))
        try:
            mod.campaign(col, tier, seed, shard, nshards)
        except Stop:
            pass
        return ("ok", col.export())
    except HarnessError as e:
        return ("harness", f"shard {shard}: {e}\n{traceback.format_exc()}")
    except BaseException as e:  # noqa
        return ("harness", f"shard {shard}: unexpected {type(e).__name__}: {e}\n{traceback.format_exc()}")


def replay_file(mod, col, path):
    data = json.load(open(path))
    case = data["case"] if isinstance(data, dict) and "case" in data and "property" in data else data
    res = mod.run_case(case)
    unknown = col.record(case, res, sample=False)
    return case, res, unknown


def main(argv=None):
    argv = list(sys.argv[1:] if argv is None else argv)
    if len(argv) < 2:
        print("usage: run <ID> <quick|thorough> [--replay file]", file=sys.stderr)
        return EXIT_HARNESS
    prop, tier = argv[0].upper(), argv[1]
    if tier not in ("quick", "thorough"):
        print("tier must be quick or thorough", file=sys.stderr)
        return EXIT_HARNESS
    replay = None
    if "--replay" in argv:
        replay = argv[argv.index("--replay") + 1]
    seed = int(os.environ.get("VERIF_SEED", "1") or "1")
    t0 = time.time()
    _watchdog(prop, tier)
    try:
        mod = _load(prop)
        col = Collector(prop, tier, seed, getattr(mod, "MATCHERS", None))

        if replay:
            case, res, unknown = replay_file(mod, col, replay)
            for k, n in col.known.items():
                print(f"KNOWN-FINDING: property={prop} {k}: {col.open_findings[k]}")
            if unknown:
                for v in unknown:
                    print("  ", common.jdump(v)[:500])
                print(f"VIOLATION property={prop} replay={os.path.abspath(replay)}")
                return EXIT_VIOLATION
            print(f"replay ok: property={prop} labels={sorted(res.labels)}")
            return EXIT_OK

        # 1. regression tier: saved shrunk cases, replayed without hypothesis
        reg_files = sorted(glob.glob(os.path.join(common.VERIF_DIR, "regress", prop, "*.json")))
        for path in reg_files:
            case, res, unknown = replay_file(mod, col, path)
            if unknown:
                col.violations.append((case, unknown))
        col.extra["regression_cases_replayed"] = len(reg_files)

        # 2. campaign (sharded)
        nshards = getattr(mod, "SHARDS", {}).get(tier, 1 if tier == "quick" else 16)
        nshards = max(1, min(nshards, int(os.environ.get("VERIF_MAX_PROCS", "16"))))
        if nshards == 1:
            try:
                mod.campaign(col, tier, seed, 0, 1)
            except Stop:
                pass
        else:
            ctx = mp.get_context("fork")
            with ctx.Pool(nshards) as pool:
                results = pool.map(_shard_worker, [(prop, tier, seed, i, nshards) for i in range(nshards)], chunksize=1)
            errs = [r[1] for r in results if r[0] != "ok"]
            if errs:
                raise HarnessError("\n".join(errs))
            for _, d in results:
                col.merge(d)
        col.extra["shards"] = nshards

        # 3. generator health (only meaningful when nothing failed)
        if not col.violations:
            for label, minimum in getattr(mod, "HEALTH", {}).get(tier, getattr(mod, "HEALTH", {}).get("any", {})).items():
                if col.labels.get(label, 0) < minimum:
                    raise HarnessError(
                        f"generator health: label {label!r} seen {col.labels.get(label, 0)} times, need >= {minimum}"
                    )

        # 4. report
        wall = time.time() - t0
        # de-duplicate violations by (kind set), keep the smallest case of each
        by_kind = {}
        for case, viols in col.violations:
            key = tuple(sorted({v.get("kind", "?") for v in viols}))
            if key not in by_kind or common.case_size(case) < common.case_size(by_kind[key][0]):
                by_kind[key] = (case, viols)
        common.write_evidence(prop, tier, seed, col, mod.RULE, list(getattr(mod, "ASSUMPTIONS", [])), wall, len(by_kind))
        for k, n in sorted(col.known.items()):
            print(f"KNOWN-FINDING: property={prop} {k} ({n} cases excluded): {col.open_findings[k]}")
        print(
            f"{prop} {tier} seed={seed}: cases={col.cases} evaluations={col.evaluations} "
            f"distinct_nontrivial={col.distinct_nontrivial} known_excluded={sum(col.known.values())} wall={wall:.1f}s"
        )
        if by_kind:
            for key, (case, viols) in sorted(by_kind.items()):
                path = common.write_replay(prop, case, viols)
                for v in viols[:3]:
                    print("  ", common.jdump(v)[:600])
                print(f"VIOLATION property={prop} replay={path}")
            return EXIT_VIOLATION
        return EXIT_OK
    except HarnessError as e:
        print(f"HARNESS-ERROR property={prop}: {e}", file=sys.stderr)
        return EXIT_HARNESS
    except Exception as e:  # noqa
        traceback.print_exc()
        print(f"HARNESS-ERROR property={prop}: unexpected {type(e).__name__}: {e}", file=sys.stderr)
        return EXIT_HARNESS


if __name__ == "__main__":
    sys.exit(main())
