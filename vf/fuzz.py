"""Coverage-guided stage (atheris / libFuzzer) for a property, reusing the property's Hypothesis strategy:
the fuzzer mutates the Hypothesis choice sequence (`fuzz_one_input`), the semantic oracle (run_case) is inside
the target.  An unknown violation is written as a replay file into <outdir> and stops the campaign.

    python -m vf.fuzz <ID> <outdir> [libFuzzer flags, e.g. -runs=100000 -seed=3]

Used by the thorough tier (vf.common.fuzz_stage); skipped with a note in the evidence when atheris is not importable.
"""
from __future__ import annotations

import importlib
import json
import os
import sys


def main():
    prop, outdir = sys.argv[1].upper(), sys.argv[2]
    argv = [sys.argv[0]] + sys.argv[3:]
    os.makedirs(outdir, exist_ok=True)
    corpus = os.path.join(outdir, "corpus")
    os.makedirs(corpus, exist_ok=True)
    import atheris

    from . import common

    repo = os.path.abspath(common.REPO)
    sys.path.insert(0, repo)
    with atheris.instrument_imports(include=["curtsies"]):
        import curtsies  # noqa
        import curtsies.escseqparse  # noqa
        import curtsies.events  # noqa
        import curtsies.formatstring  # noqa
        import curtsies.formatstringarray  # noqa
        import curtsies.configfile_keynames  # noqa
    common.import_repo()
    mod = importlib.import_module(f"vf.props.{prop.lower()}")
    col = common.Collector(prop, "thorough", 0, getattr(mod, "MATCHERS", None))
    run_case = getattr(mod, "run_case_any", mod.run_case)
    stats = {"executions": 0, "known": 0, "nontrivial": 0}

    from hypothesis import given, settings, HealthCheck

    @settings(database=None, deadline=None, suppress_health_check=list(HealthCheck))
    @given(mod.strategy())
    def test(case):
        res = run_case(case)
        stats["executions"] += 1
        if res.nontrivial:
            stats["nontrivial"] += 1
        unknown = col.record(case, res, sample=False)
        if stats["executions"] % 250 == 0:
            _dump_stats(outdir, stats, col)
        if unknown:
            path = os.path.join(outdir, "crash-%016x.json" % common.case_hash(case))
            with open(path, "w") as f:
                f.write(json.dumps({"property": prop, "case": json.loads(common.jdump(case)), "violations": json.loads(common.jdump(unknown))}))
            _dump_stats(outdir, stats, col)
            raise AssertionError(f"violation of {prop}: {path}")

    def one_input(data):
        try:
            test.hypothesis.fuzz_one_input(data)
        finally:
            pass

    atheris.Setup(argv + [corpus], one_input)
    try:
        atheris.Fuzz()
    finally:
        _dump_stats(outdir, stats, col)


def _dump_stats(outdir, stats, col):
    with open(os.path.join(outdir, "stats.json"), "w") as f:
        json.dump({**stats, "known": sum(col.known.values()), "distinct_nontrivial": len(col.nt_hashes)}, f)


if __name__ == "__main__":
    main()
