"""Hypothesis strategies shared between properties.  All produce JSON-able values."""
from __future__ import annotations

import itertools

from hypothesis import strategies as st

from .cells import STYLES

NARROW = "abcXYZ 0-_134m[;{}%\\"  # incl. characters that also occur inside escape sequences, and those that mean something to str.format, % and re
CTRL = "\n\t\r\x00\x07\x7f"  # control characters other than ESC / CSI
WIDE = "Ｅ中한"  # fullwidth E, CJK, Hangul: two columns
COMBINING = "̤́"  # zero columns
ASTRAL_WIDE = "\U0001f600"
ASTRAL_NARROW = "\U0001d49c"

FGS = list(range(30, 38))
BGS = list(range(40, 48))


def atts(allow_false=True, bias_empty=True):
    """attribute dict: fg?, bg?, each style absent/True/(False)"""
    style_vals = [None, True, False] if allow_false else [None, True]

    def mk(fg, bg, styles):
        d = {}
        if fg is not None:
            d["fg"] = fg
        if bg is not None:
            d["bg"] = bg
        for name, v in zip(STYLES, styles):
            if v is not None:
                d[name] = v
        return d

    full = st.builds(
        mk,
        st.one_of(st.none(), st.sampled_from(FGS)),
        st.one_of(st.none(), st.sampled_from(BGS)),
        st.tuples(*[st.sampled_from(style_vals) for _ in STYLES]),
    )
    simple = st.sampled_from(
        [{}, {"fg": 31}, {"fg": 34}, {"bg": 44}, {"bold": True}, {"fg": 31, "bg": 44}, {"fg": 32, "bold": True}, {"underline": True, "invert": True}]
    )
    return st.one_of(simple, full) if bias_empty else full


def text(alphabet, min_size=0, max_size=6):
    return st.text(alphabet=alphabet, min_size=min_size, max_size=max_size)


CODE = {"bold": 1, "dark": 2, "italic": 3, "underline": 4, "blink": 5, "invert": 7}


def lookalike_run():
    """a run whose text is a piece of its own escape codes ('34' in blue, '1m' in bold, '[44m' on blue ...), possibly
    with one more character - text that a search inside the rendered string would find in the wrong place"""

    def mk(t):
        a, which, lo, hi, extra = t
        codes = [str(v) if k in ("fg", "bg") else str(CODE[k]) for k, v in a.items() if v and (k in ("fg", "bg") or k in CODE)]
        if not codes:
            return ["0m", a]
        full = "[" + codes[which % len(codes)] + "m"
        lo = lo % len(full)
        piece = full[lo : lo + 1 + hi % (len(full) - lo)]
        return [piece + extra, a]

    return st.tuples(atts(False, bias_empty=False), st.integers(0, 7), st.integers(0, 4), st.integers(0, 4), st.sampled_from(["", "", "x", "3", "m"])).map(mk)


def desc(alphabet=NARROW, max_runs=5, max_len=5, min_runs=0, allow_false=True, empty_runs=True):
    """FmtStr description [[text, atts], ...]"""
    plain_run = st.tuples(text(alphabet, 0 if empty_runs else 1, max_len), atts(allow_false)).map(list)
    run = st.one_of(plain_run, plain_run, plain_run, plain_run, plain_run, plain_run, plain_run, lookalike_run())
    return st.lists(run, min_size=min_runs, max_size=max_runs)


def desc_sized(alphabet=NARROW, max_runs=5, max_len=5, min_runs=0, allow_false=True, big_runs=70, big_len=300, huge=True):
    """mostly small descriptions (they shrink and enumerate well), now and then a large one: many runs and/or long
    texts, so that size thresholds (buffer sizes, powers of two, 'more than N items') are crossed"""
    small = desc(alphabet, max_runs, max_len, min_runs, allow_false)
    many_runs = desc(alphabet, big_runs, 3, max(min_runs, 9), allow_false)
    long_text = st.lists(st.tuples(text(alphabet, 0, big_len), atts(allow_false)).map(list), min_size=max(min_runs, 1), max_size=3)
    huge_runs = desc(alphabet, 130, 2, max(min_runs, 65), allow_false)
    repeated = st.tuples(desc(alphabet, 3, max_len, max(min_runs, 1), allow_false), st.integers(2, 3)).map(lambda t: [list(r) for r in t[0]] * t[1])
    if not huge:
        return st.one_of(small, small, small, small, small, repeated, many_runs, long_text)
    return st.one_of(small, small, small, small, small, repeated, many_runs, long_text, huge_runs)


def plain_str(max_size=4, csi=True):
    """plain str operands: ordinary text, sometimes with control characters - a bare ESC, U+009B, or whole escape
    sequences.  A plain str is plain: its characters are taken as they are (only fmtstr()/from_str parse escape codes)"""
    odd = st.text(alphabet="ab1;mMA\x1b\x9b ", max_size=max(max_size, 5)).map(lambda s: s.replace("\x1b[", "\x1bM"))
    esc = st.sampled_from(["\x1b[31mx\x1b[39m", "a\x1b[1m", "\x1b[0m", "\x1b[2Jz", "\x1b[38;5;196mq"])
    return st.one_of(text(NARROW, 0, max_size), text(NARROW, 0, max_size), odd, esc if csi else odd)


OBS = st.one_of(st.just(0), st.just(0), st.integers(0, 0xFFFF), st.just(0xFFFF))
PLAIN_BUILDS = ["chunks", "fmtstr", "names"]
DERIVED_BUILDS = ["d_removed", "d_false", "d_slice", "d_concat", "d_copy", "d_mul", "d_join", "d_splice", "d_split"]
BUILDS = st.sampled_from(PLAIN_BUILDS + PLAIN_BUILDS + DERIVED_BUILDS)


ALL_TEXT = NARROW + CTRL + WIDE + COMBINING + ASTRAL_WIDE + ASTRAL_NARROW


def all_attribute_dicts(with_false=True):
    """complete enumeration of attribute dicts: 9 fg x 9 bg x (2 or 3)^6 style states"""
    vals = (None, True, False) if with_false else (None, True)
    for fg in [None] + FGS:
        for bg in [None] + BGS:
            for styles in itertools.product(vals, repeat=6):
                d = {}
                if fg is not None:
                    d["fg"] = fg
                if bg is not None:
                    d["bg"] = bg
                for name, v in zip(STYLES, styles):
                    if v is not None:
                        d[name] = v
                yield d


NEIGHBOURS = [
    {},
    {"fg": 31},
    {"bg": 42},
    {"bold": True},
    {"fg": 33, "bg": 45},
    {"fg": 36, "underline": True},
    {"bg": 47, "invert": True, "blink": True},
    {"dark": True, "italic": True},
    {"fg": 30, "bg": 40, "bold": True, "dark": True, "italic": True, "underline": True, "blink": True, "invert": True},
    {"bold": False},
    {"fg": 37, "bold": False, "italic": True},
    {"bg": 41, "underline": False},
    {"italic": True},
    {"blink": True},
    {"invert": True},
    {"underline": True},
    {"dark": True},
    {"fg": 32, "dark": True},
    {"bg": 46, "italic": True},
    {"fg": 35, "bg": 43, "invert": True},
    {"fg": 34},
    {"bg": 44},
    {"fg": 31, "bg": 44},
    {"bold": True, "underline": True},
]
