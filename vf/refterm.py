"""Reference terminal (xterm semantics) for exactly what blessed emits under TERM=xterm plus
what curtsies writes itself.  Anything else raises Unsupported -> harness error, so a change
in what the library emits can never be silently ignored.

Cells are (char, fg, bg, styles-tuple) as in vf/cells.py.  Erase uses the current background
(BCE).  Printing in the last column sets the pending-wrap flag; the next printable wraps (and
scrolls on the last row); CUP/CHA/CR/BS/EL clear the flag; EL in pending-wrap state erases the
last column (the reason for curtsies' `len(line) < width` guard).
"""
from __future__ import annotations

import fcntl
import os
import struct
import termios

from .cells import BLANK
from .common import HarnessError
from .sgr import GState
from .widths import cw


class Unsupported(HarnessError):
    pass


class StreamExhausted(BaseException):
    """the library reads from the terminal although every report the terminal sent has been consumed (a real
    terminal would leave it blocked forever); BaseException so that no handler in the library swallows it"""


class RefTerm:
    def __init__(self, h, w):
        self.h, self.w = h, w
        self.main = [[BLANK] * w for _ in range(h)]
        self.alt = None
        self.scrollback = []
        self.in_alt = False
        self.r = self.c = 0
        self.wrap = False
        self.g = GState()
        self.saved = None  # DECSC
        self.saved_main = None  # cursor saved by ?1049h
        self.cursor_visible = True
        self.scrolls_main = 0
        self.scrolls_alt = 0
        self.replies = []  # DSR replies waiting to be read by the scripted in_stream
        self.dsr_count = 0
        self.last_report_row = None
        self.report_log = []
        self.title_stack = 0
        self._buf = ""
        self.log = []

    # -- helpers -------------------------------------------------------------------------
    @property
    def screen(self):
        return self.alt if self.in_alt else self.main

    def tape(self):
        return self.scrollback + self.main

    def _erased(self):
        return (" ", None, self.g.bg, ())

    def _scroll_up(self):
        scr = self.screen
        top = scr.pop(0)
        scr.append([self._erased()] * self.w)
        if self.in_alt:
            self.scrolls_alt += 1
        else:
            self.scrollback.append(top)
            self.scrolls_main += 1

    def _linefeed(self):
        if self.r == self.h - 1:
            self._scroll_up()
        else:
            self.r += 1
        self.wrap = False

    def _put(self, ch):
        if cw(ch) != 1:
            raise Unsupported(f"reference terminal only models single-column characters, got {ch!r}")
        if self.wrap:
            self.c = 0
            self._linefeed()
        self.screen[self.r][self.c] = (ch,) + self.g.fmt()
        if self.c == self.w - 1:
            self.wrap = True
        else:
            self.c += 1

    # -- input ---------------------------------------------------------------------------
    def feed(self, s):
        s = self._buf + s
        self._buf = ""
        i, n = 0, len(s)
        while i < n:
            ch = s[i]
            if ch == "\x1b":
                j = self._escape(s, i)
                if j is None:  # incomplete: wait for more
                    self._buf = s[i:]
                    return
                i = j
                continue
            if ch == "\n":
                self._linefeed()
            elif ch == "\r":
                self.c = 0
                self.wrap = False
            elif ch == "\b":
                self.c = max(0, self.c - 1)
                self.wrap = False
            elif ch == "\x07":
                pass
            elif ord(ch) < 32 or ch == "\x7f":
                raise Unsupported(f"control character {ch!r} written to the terminal")
            else:
                self._put(ch)
            i += 1

    def _escape(self, s, i):
        n = len(s)
        if i + 1 >= n:
            return None
        nxt = s[i + 1]
        if nxt == "7":
            self.saved = (self.r, self.c, self.wrap, self.g.fg, self.g.bg, set(self.g.styles))
            return i + 2
        if nxt == "8":
            if self.saved is not None:
                self.r, self.c, self.wrap, fg, bg, st = self.saved
                self.g.fg, self.g.bg, self.g.styles = fg, bg, set(st)
                self.r = min(self.r, self.h - 1)
                self.c = min(self.c, self.w - 1)
            else:
                self.r = self.c = 0
                self.wrap = False
            return i + 2
        if nxt != "[":
            raise Unsupported(f"escape sequence ESC {nxt!r}")
        j = i + 2
        while j < n and (s[j] in "0123456789;?"):
            j += 1
        if j >= n:
            return None
        if 0x20 <= ord(s[j]) <= 0x2F:
            # intermediate bytes.  A parameter byte after an intermediate makes the sequence malformed: xterm (the VT500
            # parser's "CSI ignore" state) swallows it up to the final byte and does nothing - e.g. ESC[-1;1H
            k, malformed = j, False
            while k < n and not (0x40 <= ord(s[k]) <= 0x7E):
                if 0x30 <= ord(s[k]) <= 0x3F:
                    malformed = True
                elif not (0x20 <= ord(s[k]) <= 0x2F):
                    raise Unsupported(f"character {s[k]!r} inside a control sequence")
                k += 1
            if k >= n:
                return None
            if malformed:
                self.ignored_sequences = getattr(self, "ignored_sequences", 0) + 1
                return k + 1
            raise Unsupported(f"CSI {s[i + 2 : k + 1]!r} (intermediate bytes)")
        final = s[j]
        params = s[i + 2 : j]
        self._csi(params, final)
        return j + 1

    def _nums(self, params, default):
        out = []
        for p in params.split(";") if params else []:
            out.append(int(p) if p else default)
        return out

    def _csi(self, params, final):
        private = params.startswith("?")
        if private:
            nums = self._nums(params[1:], 0)
            if final not in "hl":
                raise Unsupported(f"CSI ?{params}{final}")
            for p in nums:
                if p == 25:
                    self.cursor_visible = final == "h"
                elif p == 12:
                    pass  # cursor blink
                elif p == 1049:
                    if final == "h":
                        if not self.in_alt:
                            self.saved_main = (self.r, self.c, self.wrap)
                            self.in_alt = True
                            self.alt = [[self._erased()] * self.w for _ in range(self.h)]
                    else:
                        if self.in_alt:
                            self.in_alt = False
                            self.alt = None
                            if self.saved_main is not None:
                                self.r, self.c, self.wrap = self.saved_main
                                self.r = min(self.r, self.h - 1)
                                self.c = min(self.c, self.w - 1)
                else:
                    raise Unsupported(f"private mode {p}")
            return
        if final == "m":
            for p in self._nums(params, 0) or [0]:
                if not self.g.apply(p):
                    raise Unsupported(f"SGR parameter {p}")
            return
        nums = self._nums(params, 0)
        if final in "Hf":
            row = (nums[0] if len(nums) > 0 and nums[0] else 1) - 1
            col = (nums[1] if len(nums) > 1 and nums[1] else 1) - 1
            self.r = min(max(row, 0), self.h - 1)
            self.c = min(max(col, 0), self.w - 1)
            self.wrap = False
        elif final == "G":
            col = (nums[0] if nums and nums[0] else 1) - 1
            self.c = min(max(col, 0), self.w - 1)
            self.wrap = False
        elif final in "ABCD":
            k = nums[0] if nums and nums[0] else 1
            if final == "A":
                self.r = max(0, self.r - k)
            elif final == "B":
                self.r = min(self.h - 1, self.r + k)
            elif final == "C":
                self.c = min(self.w - 1, self.c + k)
            else:
                self.c = max(0, self.c - k)
            self.wrap = False
        elif final == "K":
            mode = nums[0] if nums else 0
            row = self.screen[self.r]
            if mode == 0:
                for x in range(self.c, self.w):
                    row[x] = self._erased()
                self.wrap = False
            elif mode == 1:
                for x in range(0, self.c + 1):
                    row[x] = self._erased()
            elif mode == 2:
                for x in range(self.w):
                    row[x] = self._erased()
            else:
                raise Unsupported(f"EL {mode}")
        elif final == "J":
            mode = nums[0] if nums else 0
            scr = self.screen
            if mode == 0:
                for x in range(self.c, self.w):
                    scr[self.r][x] = self._erased()
                for y in range(self.r + 1, self.h):
                    scr[y] = [self._erased()] * self.w
                self.wrap = False
            elif mode == 2:
                for y in range(self.h):
                    scr[y] = [self._erased()] * self.w
            else:
                raise Unsupported(f"ED {mode}")
        elif final == "n":
            if nums == [6]:
                self.dsr_count += 1
                self.last_report_row = self.r
                self.report_log.append(self.r)
                self.replies.append("\x1b[%d;%dR" % (self.r + 1, self.c + 1))
            else:
                raise Unsupported(f"DSR {nums}")
        elif final == "t":
            if nums and nums[0] == 22:
                self.title_stack += 1
            elif nums and nums[0] == 23:
                self.title_stack -= 1
            else:
                raise Unsupported(f"window op {nums}")
        else:
            raise Unsupported(f"CSI {params}{final}")

    # -- harness-side manipulation ---------------------------------------------------------
    def resize(self, h, w, junk_seed, cursor):
        """new dimensions; the active screen is filled with junk; cursor anywhere"""
        self.h, self.w = h, w
        scr = [[junk_cell(junk_seed, y, x) for x in range(w)] for y in range(h)]
        if self.in_alt:
            self.alt = scr
            self.main = [(row + [BLANK] * w)[:w] for row in (self.main + [[BLANK] * w] * h)[:h]]
        else:
            self.main = scr
        self.r = min(cursor[0], h - 1)
        self.c = min(cursor[1], w - 1)
        self.wrap = False

    def move_content(self, d):
        """vertical content movement as a terminal emulator produces it: d > 0 - the terminal gets d rows taller and
        the content (with the cursor) moves down; d < 0 - the content (with the cursor) moves up, lines leaving at the
        top go to the scrollback.  Returns the new height."""
        if d > 0:
            self.h += d
            self.main = [[BLANK] * self.w for _ in range(d)] + self.main
            self.r += d
        elif d < 0:
            k = min(-d, self.r)
            for _ in range(k):
                self.scrollback.append(self.main.pop(0))
                self.main.append([BLANK] * self.w)
            self.r -= k
        self.wrap = False
        return self.h

    def resize_rows(self, new_h):
        """the terminal gets taller or shorter the way xterm does it: growing pulls lines back from the scrollback (content
        and cursor move down) as far as there are any; shrinking drops blank rows below the cursor first and scrolls the
        content up (into the scrollback) only as far as needed to keep the cursor on the screen"""
        new_h = max(2, new_h)
        if new_h > self.h:
            grow = new_h - self.h
            pulled = min(grow, len(self.scrollback))
            for _ in range(pulled):
                self.main.insert(0, self.scrollback.pop())
            self.main += [[BLANK] * self.w for _ in range(grow - pulled)]
            self.r += pulled
        elif new_h < self.h:
            up = max(0, self.r - (new_h - 1))
            for _ in range(up):
                self.scrollback.append(self.main.pop(0))
            self.r -= up
            self.main = self.main[:new_h]
        self.h = new_h
        self.wrap = False
        return self.h

    def fill_junk(self, junk_seed):
        scr = self.screen
        for y in range(self.h):
            for x in range(self.w):
                scr[y][x] = junk_cell(junk_seed, y, x)


JUNK_CHARS = "#@%J?*"
JUNK_FMT = [(None, None, ()), (31, None, ()), (None, 45, ()), (33, 44, ("bold",)), (None, None, ("invert",))]


def junk_cell(seed, y, x):
    k = (seed * 31 + y * 7 + x * 13) % 97
    if seed % 4 == 0 and k % 5 == 0:
        return BLANK
    return (JUNK_CHARS[k % len(JUNK_CHARS)],) + JUNK_FMT[(k // 3) % len(JUNK_FMT)]


# ---------------------------------------------------------------------------------------
# streams handed to the library


class Pty:
    """a pty pair whose slave carries the window size the library sees"""

    def __init__(self, h, w):
        self.master, self.slave = os.openpty()
        self.set_size(h, w)

    def set_size(self, h, w):
        fcntl.ioctl(self.slave, termios.TIOCSWINSZ, struct.pack("HHHH", h, w, 0, 0))

    def close(self):
        for fd in (self.master, self.slave):
            try:
                os.close(fd)
            except OSError:
                pass


class OutStream:
    def __init__(self, term: RefTerm, pty: Pty):
        self.term, self.pty = term, pty
        self.writes = 0

    def write(self, s):
        self.writes += 1
        self.term.feed(s)
        return len(s)

    def flush(self):
        pass

    def fileno(self):
        return self.pty.slave

    def isatty(self):
        return True


class ScriptedIn:
    """in_stream for CursorAwareWindow: hands out generated 'extra' input, the model's DSR replies,
    generated trailing input and generated OSErrors, one character per read(1)"""

    encoding = "utf-8"

    def __init__(self, term: RefTerm, pty: Pty, encoding="utf-8"):
        self.term, self.pty = term, pty
        self.encoding = encoding
        self.before = ""  # served before the next DSR reply
        self.after = ""  # stays unread behind the reply
        self.errors = set()  # read indices (counted over all read calls) that raise OSError first
        self.nread = 0
        self.consumed = ""
        self.on_read = None  # hook(index) called at the start of every read
        self._cur = ""

    def fileno(self):
        return self.pty.slave

    def read(self, n=1):
        assert n == 1
        idx = self.nread
        self.nread += 1
        if self.on_read is not None:
            self.on_read(idx)
        if idx in self.errors:
            raise OSError(5, "injected read error")
        if not self._cur:
            if self.term.replies:
                self._cur = self.before + self.term.replies.pop(0) + self.after
                self.before = self.after = ""
            elif self.before:
                self._cur, self.before = self.before, ""
        if not self._cur:
            raise StreamExhausted("read from in_stream although no cursor report is outstanding")
        ch, self._cur = self._cur[0], self._cur[1:]
        self.consumed += ch
        return ch

    def unread(self):
        return self._cur
