"""Independent SGR interpreter and conservative escape-sequence scanner.

Nothing here imports curtsies.  `interpret` is "the ANSI terminal" of C01/C05: it applies
ECMA-48 / xterm SGR semantics for the parameters curtsies claims to support.
"""
from __future__ import annotations

ESC = "\x1b"
CSI8 = "\x9b"
STYLE_CODE = {1: "bold", 2: "dark", 3: "italic", 4: "underline", 5: "blink", 7: "invert"}
STYLE_ORDER = ("bold", "dark", "italic", "underline", "blink", "invert")


class GState:
    __slots__ = ("fg", "bg", "styles")

    def __init__(self):
        self.fg = None
        self.bg = None
        self.styles = set()

    def apply(self, p):
        """apply one SGR parameter; returns False if it is not one of the supported ones"""
        if p == 0:
            self.fg = self.bg = None
            self.styles.clear()
        elif p in STYLE_CODE:
            self.styles.add(STYLE_CODE[p])
        elif 30 <= p <= 37:
            self.fg = p
        elif p == 39:
            self.fg = None
        elif 40 <= p <= 47:
            self.bg = p
        elif p == 49:
            self.bg = None
        else:
            return False
        return True

    def fmt(self):
        return (self.fg, self.bg, tuple(s for s in STYLE_ORDER if s in self.styles))

    def is_default(self):
        return self.fg is None and self.bg is None and not self.styles


def interpret(s):
    """-> (cells, final GState, problems)

    cells: [(char, fg, bg, styles)] for every character that is not part of an SGR sequence.
    problems: list of strings for anything that is not plain text or a supported
    7-bit `ESC [ params m` sequence.
    """
    st = GState()
    cells = []
    problems = []
    i, n = 0, len(s)
    while i < n:
        ch = s[i]
        if ch == ESC:
            if i + 1 < n and s[i + 1] == "[":
                j = i + 2
                while j < n and (s[j].isascii() and (s[j].isdigit() or s[j] == ";")):
                    j += 1
                if j < n and s[j] == "m":
                    params = s[i + 2 : j]
                    for p in params.split(";") if params else [""]:
                        v = int(p) if p else 0
                        if not st.apply(v):
                            problems.append(f"unsupported SGR parameter {v} at {i}")
                    i = j + 1
                    continue
                problems.append(f"non-SGR control sequence at {i}: {s[i:j+1]!r}")
                i = j + 1 if j < n else n
                continue
            problems.append(f"ESC not followed by '[' at {i}")
            i += 1
            continue
        if ch == CSI8:
            problems.append(f"8-bit CSI at {i}")
            i += 1
            continue
        cells.append((ch,) + st.fmt())
        i += 1
    return cells, st, problems


# ---------------------------------------------------------------------------------------
# conservative scanner for C17: which characters could belong to an escape sequence under
# *any* reasonable reading.  The complement is "ordinary text" that must survive.


def shadow(s):
    """-> list[bool], True where the character may be part of an escape sequence.

    An introducer is ESC or U+009B.  After ESC the next character (any) is shadowed - it is
    either '[' (CSI), a two-byte escape final, or an intermediate.  After a CSI introducer
    (ESC[ or U+009B) the following run of parameter/intermediate bytes 0x20-0x3F and one
    final byte 0x40-0x7E are shadowed.  After ESC + non-'[' whose character is an
    intermediate 0x20-0x2F the run of further intermediates and one final 0x30-0x7E are
    shadowed as well (nF escapes).
    """
    n = len(s)
    sh = [False] * n
    i = 0
    while i < n:
        ch = s[i]
        if ch == ESC or ch == CSI8:
            sh[i] = True
            j = i + 1
            csi = ch == CSI8
            if ch == ESC and j < n:
                sh[j] = True
                if s[j] == "[":
                    csi = True
                    j += 1
                elif " " <= s[j] <= "/":
                    j += 1
                    while j < n and " " <= s[j] <= "/":
                        sh[j] = True
                        j += 1
                    if j < n and "0" <= s[j] <= "~":
                        sh[j] = True
                else:
                    j += 1
            if csi:
                while j < n and " " <= s[j] <= "?":
                    sh[j] = True
                    j += 1
                if j < n and "@" <= s[j] <= "~":
                    sh[j] = True
            # do not skip: an introducer inside the shadow starts its own shadow
            i += 1
            continue
        i += 1
    return sh
