"""Shared machinery: tiers, seeds, sharding, collector, evidence, replay files,
known findings, exit codes.

Every property module (vf/props/cNN.py) exposes

    PROP   = "C01"
    RULE   = "how cases are generated and what counts as non-trivial"
    ASSUMPTIONS = [...]
    run_case(case: dict) -> Res          # pure function of the case and the code under test
    campaign(col: Collector, tier, seed, shard, nshards) -> None
    MATCHERS = {"finding-key": lambda case, violation: bool}   (optional)
    SHARDS = {"quick": 1, "thorough": 16}                      (optional)

`case` is always a JSON-serialisable dict; a replay file is just that dict.
"""
from __future__ import annotations

import hashlib
import json
import os
import sys
import time
import traceback
from collections import Counter

VERIF_DIR = os.path.dirname(os.path.dirname(os.path.abspath(__file__)))
REPO = os.environ.get("VERIF_REPO", "/repo")
OUT_DIR = os.environ.get("VERIF_OUT") or VERIF_DIR  # evidence/ and replays/ go here

EXIT_OK, EXIT_VIOLATION, EXIT_HARNESS = 0, 1, 2


class HarnessError(Exception):
    """Something is wrong with the harness or generator, never with the code under test."""


class Stop(Exception):
    """Raised inside a campaign to stop early once enough violations are collected."""


# --------------------------------------------------------------------------------------
# importing the code under test


def import_repo():
    """Put the repository first on sys.path and make sure that is what gets imported."""
    repo = os.path.abspath(REPO)
    if sys.path[0] != repo:
        sys.path.insert(0, repo)
    import curtsies  # noqa

    got = os.path.dirname(os.path.dirname(os.path.abspath(curtsies.__file__)))
    if os.path.realpath(got) != os.path.realpath(repo):
        raise HarnessError(f"curtsies imported from {got}, expected {repo}")
    return curtsies


# --------------------------------------------------------------------------------------
# results of one case


class Res:
    """Outcome of run_case: labels (classification), non-triviality and violations."""

    __slots__ = ("labels", "nontrivial", "violations", "evals")

    def __init__(self, labels=(), nontrivial=False, violations=None, evals=1):
        self.labels = set(labels)
        self.nontrivial = nontrivial
        self.violations = violations or []
        self.evals = evals  # how many oracle evaluations this case contained

    def viol(self, kind, **detail):
        self.violations.append({"kind": kind, **detail})

    def label(self, *names):
        self.labels.update(names)


def jdump(obj):
    return json.dumps(obj, sort_keys=True, ensure_ascii=True, default=_json_default)


def _json_default(o):
    if isinstance(o, (bytes, bytearray)):
        return {"__bytes__": o.hex()}
    if isinstance(o, (set, frozenset)):
        return sorted(o)
    return repr(o)


def case_hash(case) -> int:
    return int.from_bytes(hashlib.blake2b(jdump(case).encode(), digest_size=8).digest(), "big")


# --------------------------------------------------------------------------------------
# known findings


def load_known_findings(prop):
    """Returns (open_findings: {key: text}, fixed: [text])"""
    path = os.path.join(VERIF_DIR, "KNOWN_FINDINGS.txt")
    open_, fixed = {}, []
    if not os.path.exists(path):
        return open_, fixed
    for line in open(path, encoding="utf-8"):
        line = line.strip()
        if not line or line.startswith("#"):
            continue
        if line.startswith("finding:"):
            parts = line.split(None, 3)
            if len(parts) < 3 or parts[1] != f"property={prop}":
                continue
            if not parts[2].startswith("key="):
                raise HarnessError(f"malformed finding line: {line}")
            open_[parts[2][4:]] = parts[3] if len(parts) > 3 else ""
        elif line.startswith("fixed:"):
            if f"property={prop}" in line.split():
                fixed.append(line)
    return open_, fixed


# --------------------------------------------------------------------------------------
# collector


class Collector:
    MAX_VIOLATIONS = 5  # distinct unknown violations kept before the campaign is stopped
    MAX_SAMPLES = 8

    def __init__(self, prop, tier, seed, matchers=None):
        self.prop, self.tier, self.seed = prop, tier, seed
        self.evaluations = 0
        self.cases = 0
        self.labels = Counter()
        self.nt_hashes = set()  # hashes of non-trivial cases seen through record()
        self.nt_enum = 0  # non-trivial cases that are distinct by construction (enumerations)
        self.samples = []
        self._sample_labels = set()
        self.violations = []  # (case, [violation dicts])
        self.known = Counter()
        self.known_examples = {}
        self.exhaustive = {}  # name -> bool, for enumerated sub-spaces
        self.extra = {}
        self.matchers = matchers or {}
        self.open_findings, self.fixed_lines = load_known_findings(prop)
        for k in self.open_findings:
            if k not in self.matchers:
                raise HarnessError(f"{prop}: KNOWN_FINDINGS key {k!r} has no matcher")

    # -- classification of violations ------------------------------------------------
    def split(self, case, violations):
        """-> (unknown violations, known keys)"""
        unknown, keys = [], []
        for v in violations:
            for key in self.open_findings:
                try:
                    hit = self.matchers[key](case, v)
                except Exception:
                    hit = False
                if hit:
                    keys.append(key)
                    break
            else:
                unknown.append(v)
        return unknown, keys

    def record(self, case, res: Res, distinct=False, sample=True):
        """Account for one executed case. Returns the list of *unknown* violations."""
        self.cases += 1
        self.evaluations += res.evals
        for l in res.labels:
            self.labels[l] += 1
        if res.nontrivial:
            if distinct:
                self.nt_enum += 1
            else:
                self.nt_hashes.add(case_hash(case))
            if sample and len(self.samples) < self.MAX_SAMPLES:
                new = res.labels - self._sample_labels
                if new or len(self.samples) < 3:
                    self._sample_labels |= res.labels
                    self.samples.append({"case": case, "labels": sorted(res.labels)})
        if not res.violations:
            return []
        unknown, keys = self.split(case, res.violations)
        for k in keys:
            self.known[k] += 1
            self.known_examples.setdefault(k, case)
        return unknown

    def bulk(self, evaluations, nontrivial=0, labels=None, cases=None):
        """Account for many enumerated (distinct by construction) cases at once."""
        self.evaluations += evaluations
        self.cases += cases if cases is not None else evaluations
        self.nt_enum += nontrivial
        if labels:
            self.labels.update(labels)

    def add_sample(self, case, labels=()):
        if len(self.samples) < self.MAX_SAMPLES:
            self.samples.append({"case": case, "labels": sorted(labels)})

    def add_violation(self, case, violations):
        self.violations.append((case, violations))
        if len(self.violations) >= self.MAX_VIOLATIONS:
            raise Stop()

    # -- merging shard results -------------------------------------------------------
    def export(self):
        return {
            "evaluations": self.evaluations,
            "cases": self.cases,
            "labels": dict(self.labels),
            "nt_hashes": self.nt_hashes,
            "nt_enum": self.nt_enum,
            "samples": self.samples,
            "violations": self.violations,
            "known": dict(self.known),
            "known_examples": self.known_examples,
            "exhaustive": self.exhaustive,
            "extra": self.extra,
        }

    def merge(self, d):
        self.evaluations += d["evaluations"]
        self.cases += d["cases"]
        self.labels.update(d["labels"])
        self.nt_hashes |= d["nt_hashes"]
        self.nt_enum += d["nt_enum"]
        for s in d["samples"]:
            if len(self.samples) < self.MAX_SAMPLES:
                self.samples.append(s)
        self.violations.extend(d["violations"])
        self.known.update(d["known"])
        for k, v in d["known_examples"].items():
            self.known_examples.setdefault(k, v)
        for k, v in d["exhaustive"].items():
            self.exhaustive[k] = self.exhaustive.get(k, True) and v
        for k, v in d["extra"].items():
            if isinstance(v, (int, float)) and isinstance(self.extra.get(k, 0), (int, float)):
                self.extra[k] = self.extra.get(k, 0) + v
            else:
                self.extra.setdefault(k, v)

    @property
    def distinct_nontrivial(self):
        return len(self.nt_hashes) + self.nt_enum


# --------------------------------------------------------------------------------------
# Hypothesis driver


def hyp_settings(n, shrink=True):
    from hypothesis import HealthCheck, Phase, settings

    phases = [Phase.generate, Phase.target]
    if shrink:
        phases.append(Phase.shrink)
    return settings(
        max_examples=n,
        database=None,
        deadline=None,
        derandomize=False,
        report_multiple_bugs=False,
        suppress_health_check=list(HealthCheck),
        phases=phases,
        print_blob=False,
    )


class _Fail(Exception):
    pass


def hyp_campaign(col: Collector, strategy, run_case, n, seed, shrink=True, max_rounds=3):
    """Drive run_case over `n` cases drawn from `strategy`.

    Known findings are counted and passed over inside the test function (so the search
    continues behind them).  An unknown violation makes Hypothesis shrink; the minimal
    failing case is kept, then the campaign goes on with a fresh seed (up to max_rounds)
    so that a shallow defect does not hide what lies behind it.
    """
    import hypothesis
    from hypothesis import given

    per_round = n
    for rnd in range(max_rounds):
        best = {}

        def body(case):
            res = run_case(case)
            unknown = col.record(case, res)
            if unknown:
                size = case_size(case)
                if "case" not in best or size <= best["size"]:
                    best["case"], best["viol"], best["size"] = case, unknown, size
                raise _Fail()

        test = hypothesis.seed(seed * 1000 + rnd)(hyp_settings(per_round, shrink)(given(strategy)(body)))
        try:
            test()
            return
        except HarnessError:
            raise
        except BaseException as e:  # noqa
            # _Fail (possibly wrapped), Flaky, or an internal shrinker error: in every case a real
            # failing case was observed if `best` is filled - report the smallest one seen.
            if "case" not in best:
                if isinstance(e, (KeyboardInterrupt, SystemExit)):
                    raise
                raise HarnessError(f"hypothesis failed without a failing case: {type(e).__name__}: {e}") from e
            col.add_violation(best["case"], best["viol"])
        per_round = max(n // 4, 50)


def _is_fail(e):
    if isinstance(e, _Fail):
        return True
    sub = getattr(e, "exceptions", None)
    if sub:
        return any(_is_fail(x) for x in sub)
    return False


# --------------------------------------------------------------------------------------
# safe execution helper for run_case implementations


def call(fn, *a, **k):
    """-> (value, None) or (None, exception)"""
    try:
        return fn(*a, **k), None
    except HarnessError:
        raise
    except Exception as e:  # noqa
        return None, e


def exc_str(e):
    return f"{type(e).__name__}: {str(e)[:200]}"


def tb_tail(e, n=3):
    return "".join(traceback.format_exception(type(e), e, e.__traceback__)[-n:])[-600:]


# --------------------------------------------------------------------------------------
# evidence


def write_evidence(prop, tier, seed, col: Collector, rule, assumptions, wall, nviol, level="exploration"):
    os.makedirs(os.path.join(OUT_DIR, "evidence"), exist_ok=True)
    cov = {
        "evaluations": int(col.evaluations),
        "cases": int(col.cases),
        "distinct_nontrivial": int(col.distinct_nontrivial),
        "rule": rule,
        "samples": json.loads(jdump(col.samples[: Collector.MAX_SAMPLES])),
        "label_histogram": dict(sorted(col.labels.items())),
        "known_excluded": dict(col.known),
        "exhaustive_subspaces": col.exhaustive,
    }
    if col.exhaustive and all(col.exhaustive.values()) and col.extra.get("only_exhaustive"):
        cov["exhaustive"] = True
    cov.update({k: v for k, v in col.extra.items() if k != "only_exhaustive"})
    ev = {
        "property_id": prop,
        "tier": tier,
        "seed": int(seed),
        "level": level,
        "coverage": cov,
        "assumptions": assumptions,
        "wall_s": round(wall, 2),
        "violations": int(nviol),
    }
    path = os.path.join(OUT_DIR, "evidence", f"{prop}.json")
    tmp = path + ".tmp"
    with open(tmp, "w") as f:
        f.write(json.dumps(ev, indent=1, sort_keys=True, default=_json_default))
    os.replace(tmp, path)
    return path


def write_replay(prop, case, violations, idx=0):
    d = os.path.join(OUT_DIR, "replays")
    os.makedirs(d, exist_ok=True)
    h = "%016x" % case_hash(case)
    path = os.path.join(d, f"{prop}-{h}.json")
    with open(path, "w") as f:
        f.write(json.dumps({"property": prop, "case": json.loads(jdump(case)), "violations": json.loads(jdump(violations))}, indent=1))
    return path


def case_size(case):
    return len(jdump(case))


# --------------------------------------------------------------------------------------
# coverage-guided stage (atheris), used by thorough tiers


def fuzz_stage(col: Collector, mod, runs, seed, max_len=4096, timeout=1500):
    """Run `python -m vf.fuzz` for mod.PROP in a subprocess (libFuzzer owns the process).  Counts its executions,
    turns crash files into violations (re-judged by run_case in this process)."""
    import shutil
    import subprocess
    import tempfile

    try:
        import atheris  # noqa: F401
    except Exception:
        col.extra["atheris"] = "not importable - coverage-guided stage skipped"
        return
    out = tempfile.mkdtemp(prefix=f"vf-fuzz-{mod.PROP}-")
    try:
        cmd = [sys.executable, "-m", "vf.fuzz", mod.PROP, out, f"-runs={runs}", f"-seed={max(1, seed)}", f"-max_len={max_len}",
               "-print_final_stats=0", "-verbosity=0", f"-artifact_prefix={out}/", "-rss_limit_mb=6144", "-timeout=600"]
        env = dict(os.environ)
        try:
            p = subprocess.run(cmd, cwd=VERIF_DIR, env=env, capture_output=True, text=True, timeout=timeout)
            status = p.returncode
        except subprocess.TimeoutExpired:
            status = "timeout"
        stats = {}
        sp = os.path.join(out, "stats.json")
        if os.path.exists(sp):
            stats = json.load(open(sp))
        col.evaluations += int(stats.get("executions", 0))
        col.cases += int(stats.get("executions", 0))
        col.extra["atheris_executions"] = col.extra.get("atheris_executions", 0) + int(stats.get("executions", 0))
        col.extra["atheris_distinct_nontrivial"] = col.extra.get("atheris_distinct_nontrivial", 0) + int(stats.get("distinct_nontrivial", 0))
        if stats.get("known"):
            col.extra["atheris_known_excluded"] = col.extra.get("atheris_known_excluded", 0) + int(stats["known"])
        run_case = getattr(mod, "run_case_any", mod.run_case)
        crashes = [f for f in os.listdir(out) if f.startswith("crash-") and f.endswith(".json")]
        for f in crashes:
            case = json.load(open(os.path.join(out, f)))["case"]
            res = run_case(case)
            unknown, _ = col.split(case, res.violations)
            if unknown:
                col.violations.append((case, unknown))
        if not crashes and status not in (0, "timeout"):
            if "libFuzzer: out-of-memory" in p.stderr or "libFuzzer: timeout" in p.stderr:
                # the fuzzer's own resource guard ended the stage (memory of the instrumented process, or one input taking
                # minutes): inconclusive - neither a violation nor a reason to fail the check
                status = "timeout"
                col.extra["atheris_resource_stop"] = ("out-of-memory" if "out-of-memory" in p.stderr else "per-input timeout") + " guard of libFuzzer"
            else:
                raise HarnessError(f"atheris stage for {mod.PROP} ended with status {status} and no crash file: {p.stderr[-400:]}")
        if status == "timeout":
            col.extra["atheris_note"] = "stage stopped by its wall-clock budget (inconclusive, not a violation)"
    finally:
        shutil.rmtree(out, ignore_errors=True)
