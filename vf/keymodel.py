"""Independent tokeniser model for key bytes (C03 / C20).

Built only from the two name tables (read from the code under test *as data* - the
property's "table name" is defined by them) and a hand-written UTF-8 validity automaton
(RFC 3629: no overlongs, no surrogates, <= U+10FFFF).  Never calls get_key.
"""
from __future__ import annotations

from functools import lru_cache

import codecs

ENCODINGS = ("utf-8", "ascii", "latin-1")
# other spellings of the same three encodings, as locale.getpreferredencoding() really returns them
ALIASES = ("UTF-8", "utf8", "ANSI_X3.4-1968", "US-ASCII", "ISO-8859-1", "latin1")
_CANON = {}


def canon(enc):
    """'utf-8' / 'ascii' / 'latin-1' for any spelling of these encodings"""
    c = _CANON.get(enc)
    if c is None:
        name = codecs.lookup(enc).name
        c = {"utf-8": "utf-8", "ascii": "ascii", "iso8859-1": "latin-1"}.get(name)
        if c is None:
            raise ValueError(enc)
        _CANON[enc] = c
    return c


class Tables:
    def __init__(self):
        from curtsies import events

        self.curtsies = dict(events.CURTSIES_NAMES)
        self.curses = dict(events.CURSES_NAMES)
        self.table = set(self.curtsies) | set(self.curses)
        self.prefixes = set()  # proper non-empty prefixes of table sequences
        for k in self.table:
            for i in range(1, len(k)):
                self.prefixes.add(k[:i])
        self.maxlen = max(len(k) for k in self.table)
        self.by_first = {}
        for k in self.table:
            self.by_first.setdefault(k[0], []).append(k)


_T = None


def tables():
    global _T
    if _T is None:
        _T = Tables()
    return _T


# ---------------------------------------------------------------------------------------
# UTF-8 validity automaton


def _second_range(lead):
    if 0xC2 <= lead <= 0xDF:
        return 2, 0x80, 0xBF
    if lead == 0xE0:
        return 3, 0xA0, 0xBF
    if 0xE1 <= lead <= 0xEC or 0xEE <= lead <= 0xEF:
        return 3, 0x80, 0xBF
    if lead == 0xED:
        return 3, 0x80, 0x9F
    if lead == 0xF0:
        return 4, 0x90, 0xBF
    if 0xF1 <= lead <= 0xF3:
        return 4, 0x80, 0xBF
    if lead == 0xF4:
        return 4, 0x80, 0x8F
    return None


def utf8_class(b: bytes) -> str:
    """'char' (exactly one valid scalar), 'prefix' (proper prefix of one), or 'invalid'"""
    if not b:
        return "prefix"
    lead = b[0]
    if lead < 0x80:
        return "char" if len(b) == 1 else "invalid"
    r = _second_range(lead)
    if r is None:
        return "invalid"
    n, lo, hi = r
    if len(b) > n:
        return "invalid"
    if len(b) >= 2 and not (lo <= b[1] <= hi):
        return "invalid"
    for c in b[2:]:
        if not (0x80 <= c <= 0xBF):
            return "invalid"
    return "char" if len(b) == n else "prefix"


def char_class(b: bytes, enc: str) -> str:
    enc = canon(enc)
    if enc == "utf-8":
        return utf8_class(b)
    if enc == "ascii":
        return "char" if len(b) == 1 and b[0] < 0x80 else ("prefix" if not b else "invalid")
    if enc == "latin-1":
        return "char" if len(b) == 1 else ("prefix" if not b else "invalid")
    raise ValueError(enc)


def utf8_valid_prefixes():
    """all non-empty proper prefixes of valid UTF-8 encodings, shortest first"""
    out = []
    for lead in range(0xC2, 0xF5):
        n, lo, hi = _second_range(lead)
        out.append(bytes([lead]))
    for lead in range(0xE0, 0xF5):
        n, lo, hi = _second_range(lead)
        for s in range(lo, hi + 1):
            out.append(bytes([lead, s]))
    for lead in range(0xF0, 0xF5):
        n, lo, hi = _second_range(lead)
        for s in range(lo, hi + 1):
            for t in range(0x80, 0xC0):
                out.append(bytes([lead, s, t]))
    return out


# ---------------------------------------------------------------------------------------
# tokens and well-formedness


def is_token(b: bytes, enc: str, last_of_read: bool) -> bool:
    """table sequence or validly encoded character; under utf-8 single bytes >= 0x80 are
    recognised (as 8-bit Meta keys) only when they end a read"""
    T = tables()
    if char_class(b, enc) == "char":
        return True
    if b in T.table:
        if canon(enc) == "utf-8" and len(b) == 1 and b[0] >= 0x80:
            return last_of_read
        return True
    return False


def can_grow(b: bytes, enc: str) -> bool:
    """non-empty b is a proper prefix of a table sequence or of a valid character"""
    return b in tables().prefixes or (len(b) > 0 and char_class(b, enc) == "prefix")


@lru_cache(maxsize=1 << 18)
def wellformed_prefix(seq: bytes, enc: str, end_of_read: bool) -> bool:
    """seq = t1 ... tk + (possibly empty) proper prefix of a token"""
    n = len(seq)
    ok = [False] * (n + 1)
    ok[0] = True
    maxtok = max(tables().maxlen, 4)
    for j in range(1, n + 1):
        for i in range(max(0, j - maxtok), j):
            if ok[i] and is_token(seq[i:j], enc, last_of_read=(j == n and end_of_read)):
                ok[j] = True
                break
    if ok[n]:
        return True
    for i in range(max(0, n - maxtok), n):
        if ok[i] and can_grow(seq[i:], enc):
            return True
    return False


def starts_with_growing_table_seq(seq: bytes) -> bool:
    """some proper prefix of seq is a table sequence that is itself a proper prefix of a longer one"""
    T = tables()
    return any(seq[:k] in T.table and seq[:k] in T.prefixes for k in range(1, len(seq)))


def expected_name(seq: bytes, enc: str, mode: str):
    """table name of a table sequence / a character as itself, per naming mode. mode in curtsies|curses|bytes"""
    T = tables()
    if mode == "bytes":
        return seq
    if mode == "curtsies" and seq in T.curtsies:
        return T.curtsies[seq]
    if mode == "curses" and seq in T.curses:
        return T.curses[seq]
    try:
        return seq.decode(enc)
    except UnicodeDecodeError:
        if len(seq) == 1:
            return "x%02X" % seq[0]
        return None
