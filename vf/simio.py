"""Virtual-time harness for curtsies.input.Input (C08 / C12).

`curtsies.input.time`, `.select` and `.getpreferredencoding` are replaced *from outside* by
harness objects for the duration of a case (restored afterwards); no repository change.
The fake select first asks the real select with timeout 0 (so readiness of the real
pipe/pty/wake-up descriptors is genuine and in the real order), otherwise performs the next
generated action whose virtual time falls inside the timeout, advances the clock and polls
again; with nothing left it advances the clock by the timeout and returns empty, or - for
timeout=None - raises WouldBlockForever.
"""
from __future__ import annotations

import os
import select as real_select
import signal
import sys
import termios
import tty


class WouldBlockForever(BaseException):
    """the request asked select to wait forever and nothing will ever arrive"""


class SpinsForever(BaseException):
    """the request keeps calling select on a descriptor set the kernel rejects (EBADF): it would never return"""


class Sim:
    SPIN_LIMIT = 3000  # consecutive failing select calls without virtual time moving

    def __init__(self, encoding="utf-8"):
        self.failing_selects = 0
        self.gave_up = False
        self.now = 1000.0
        self.actions = []  # [(at, seq, callable)] pending during the current request
        self._seq = 0
        self.encoding = encoding
        self.select_calls = 0
        self.on_empty_return = None  # hook called when select is about to return empty
        self.performed = []
        self.overshoot = 0.0  # a real select returns slightly after its deadline

    # -- the three module attributes ------------------------------------------------------
    def time(self):
        return self.now

    def select(self, rlist, wlist, xlist, timeout=None):
        self.select_calls += 1
        deadline = None if timeout is None else self.now + max(0, timeout)
        while True:
            try:
                r, _, _ = real_select.select(rlist, [], [], 0)
            except (OSError, ValueError):
                # what the real select does: the caller sees the error.  A caller that answers by calling again, forever,
                # would hang the process; that is reported instead of hanging the check
                self.failing_selects += 1
                if self.failing_selects > self.SPIN_LIMIT:
                    self.failing_selects = 0
                    raise SpinsForever()
                raise
            self.failing_selects = 0
            if r:
                return r, [], []
            nxt = None
            if self.actions:
                self.actions.sort(key=lambda a: (a[0], a[1]))
                if deadline is None or self.actions[0][0] <= deadline:
                    nxt = self.actions.pop(0)
            if nxt is None:
                if deadline is None:
                    self.gave_up = True  # the request is over as far as the harness is concerned (nothing may be injected any more)
                    raise WouldBlockForever()
                self.now = max(self.now, deadline) + self.overshoot
                if self.on_empty_return is not None:
                    self.on_empty_return()
                return [], [], []
            self.now = max(self.now, nxt[0])
            nxt[2]()

    def getpreferredencoding(self):
        return self.encoding

    # -- scheduling -------------------------------------------------------------------------
    def at(self, dt, fn):
        self._seq += 1
        self.actions.append((self.now + dt, self._seq, fn))

    def clear_actions(self):
        self.actions = []


class Patched:
    """context manager substituting the clock, select and getpreferredencoding that curtsies.input uses.

    The substitution adapts to how the module spells its imports (`import time` / `from time import time, monotonic`; the same for
    select and os), and every clock the time module offers reads the same virtual time - so that a refactoring of the imports, or a move
    from time.time() to time.monotonic() for measuring intervals, does not turn into a false alarm of the harness."""

    def __init__(self, sim, read_hook=None):
        self.sim = sim
        self.read_hook = read_hook  # read_hook(fd, nbytes_returned): observes every os.read made by curtsies.input

    def __enter__(self):
        import time as real_time

        import curtsies.input as ci

        self.ci = ci
        self.saved = {}
        hook = self.read_hook
        sim = self.sim

        def hooked_read(fd, n):
            data = os.read(fd, n)
            if hook is not None:
                hook(fd, len(data))
            return data

        class _OS:
            def __getattr__(self, name):
                return getattr(os, name)

            read = staticmethod(hooked_read)

        def virtual_sleep(dt):
            sim.now += max(0, dt)

        # as in reality the monotonic clocks tick with the wall clock but count from another origin: code that subtracts a
        # reading of one from a reading of the other goes wrong here as it does there
        def mono():
            return sim.time() - 1.0e6

        class _T:
            time = staticmethod(sim.time)
            monotonic = perf_counter = staticmethod(mono)
            time_ns = staticmethod(lambda: int(sim.time() * 1e9))
            monotonic_ns = perf_counter_ns = staticmethod(lambda: int(mono() * 1e9))
            sleep = staticmethod(virtual_sleep)

            def __getattr__(self, name):
                return getattr(real_time, name)

        class _S:
            select = staticmethod(sim.select)
            error = real_select.error

            def __getattr__(self, name):
                return getattr(real_select, name)

        def put(name, val):
            self.saved[name] = vars(ci)[name]
            setattr(ci, name, val)

        for name, val in list(vars(ci).items()):
            if val is real_time:
                put(name, _T())
            elif val is real_time.time:
                put(name, sim.time)
            elif val is real_time.monotonic or val is real_time.perf_counter:
                put(name, mono)
            elif val is real_time.sleep:
                put(name, virtual_sleep)
            elif val is real_select:
                put(name, _S())
            elif val is real_select.select:
                put(name, sim.select)
            elif val is os and hook is not None:
                put(name, _OS())
            elif val is os.read and hook is not None:
                put(name, hooked_read)
        self.had_gpe = "getpreferredencoding" in vars(ci)
        if self.had_gpe:
            self.saved["getpreferredencoding"] = ci.getpreferredencoding
        ci.getpreferredencoding = sim.getpreferredencoding
        return self.sim

    def __exit__(self, *a):
        for name, val in self.saved.items():
            setattr(self.ci, name, val)
        if not self.had_gpe:
            try:
                delattr(self.ci, "getpreferredencoding")
            except AttributeError:
                pass


class LineInjector:
    """fires `fn` once, at the k-th executed line inside curtsies/input.py (sys.settrace)"""

    def __init__(self, k, fn, suspended=None):
        self.k, self.fn, self.count, self.fired = k, fn, 0, False
        self.suspended = suspended  # () -> bool: lines executed while this holds are not injection points

    def _local(self, frame, event, arg):
        if self.suspended is not None and self.suspended():
            return self._local
        if event == "line" and not self.fired:
            self.count += 1
            if self.count == self.k:
                self.fired = True
                sys.settrace(None)
                self.fn()
                return None
        return self._local

    def _global(self, frame, event, arg):
        if self.fired:
            return None
        if event == "call" and frame.f_code.co_filename.endswith(os.path.join("curtsies", "input.py")):
            return self._local
        return None

    def __enter__(self):
        sys.settrace(self._global)
        return self

    def __exit__(self, *a):
        sys.settrace(None)


class PointInjector:
    """fires `fn` once, at the k-th *interruption point* inside the library.

    CPython runs signal handlers only where the interpreter checks for them: on entry to a Python function and when a C-level call
    returns (also on loop back-edges, which lie between two such points here).  A KeyboardInterrupt from a real SIGINT can therefore
    surface only there, never between two arbitrary lines.  The points are reproduced exactly:
      * entry of every function defined in curtsies/input.py and curtsies/termhelpers.py ('call' trace event: the exception appears at the
        callee's first instruction and propagates to the caller's CALL / BEFORE_WITH, as the real one does);
      * return of every call the two modules make through their module-level names os, select, signal, fcntl, termios, tty, time (a
        proxy performs the real call, then fires: the exception appears at the caller's CALL instruction with the call's effect done,
        which is what a signal arriving during the system call gives).
    A call that raises is not a point (the interpreter does not check for signals on the error path)."""

    MODS = ("os", "select", "signal", "fcntl", "termios", "tty", "time")
    FILES = (os.path.join("curtsies", "input.py"), os.path.join("curtsies", "termhelpers.py"))

    def __init__(self, k, fn):
        self.k, self.fn, self.count, self.fired = k, fn, 0, False
        self.where = None
        self.saved = []

    def _tick(self, what):
        if self.fired:
            return
        self.count += 1
        if self.count == self.k:
            self.fired = True
            self.where = what
            sys.settrace(None)
            self.fn()

    def _global(self, frame, event, arg):
        if event == "call" and not self.fired and frame.f_code.co_filename.endswith(self.FILES) and not frame.f_code.co_name.startswith("<"):
            # (generator expressions / comprehensions resume once per item: the same point over and over, not counted)
            self._tick("enter " + frame.f_code.co_name)
        return None

    def _proxy(self, target, modname):
        inj = self

        class _P:
            def __getattr__(self, name):
                v = getattr(target, name)
                if isinstance(v, type) or not callable(v):
                    return v

                def after(*a, **kw):
                    r = v(*a, **kw)
                    inj._tick("after %s.%s" % (modname, name))
                    return r

                return after

        return _P()

    FUNC_HOMES = ("os", "posix", "select", "signal", "_signal", "fcntl", "termios", "tty", "time")

    def _wrap_function(self, fn, label):
        inj = self

        def after(*a, **kw):
            r = fn(*a, **kw)
            inj._tick("after " + label)
            return r

        return after

    def __enter__(self):
        import curtsies.input as ci
        import curtsies.termhelpers as th

        # the modules may spell their imports either way: `import fcntl` (a module object under the name: attribute proxy) or
        # `from fcntl import fcntl` / `from os import read as os_read` (the function itself under some name: wrapped directly)
        real_mods = {id(sys.modules[m]): m for m in self.MODS if m in sys.modules}
        for mod in (ci, th):
            for name, cur in list(vars(mod).items()):
                if name.startswith("__"):
                    continue
                if id(cur) in real_mods or (name in self.MODS and not callable(cur) and hasattr(cur, "__getattr__")):
                    self.saved.append((mod, name, cur))
                    setattr(mod, name, self._proxy(cur, real_mods.get(id(cur), name)))
                elif callable(cur) and not isinstance(cur, type) and getattr(cur, "__module__", None) in self.FUNC_HOMES:
                    self.saved.append((mod, name, cur))
                    setattr(mod, name, self._wrap_function(cur, "%s.%s" % (cur.__module__, getattr(cur, "__name__", name))))
        sys.settrace(self._global)
        return self

    def __exit__(self, *a):
        sys.settrace(None)
        for mod, name, cur in self.saved:
            setattr(mod, name, cur)
        self.saved = []


class PipeStream:
    """in_stream backed by a pipe (64 KiB capacity): Input is used without entering its context"""

    def __init__(self):
        self.r, self.w = os.pipe()
        os.set_blocking(self.w, False)

    def fileno(self):
        return self.r

    def feed(self, data: bytes):
        os.write(self.w, data)

    def close(self):
        for fd in (self.r, self.w):
            try:
                os.close(fd)
            except OSError:
                pass


class PtyStream:
    """in_stream backed by the slave of a pty put into raw mode first (so ISIG/ICRNL/IXON do not touch the bytes)"""

    def __init__(self):
        self.master, self.slave = os.openpty()
        tty.setraw(self.slave, termios.TCSANOW)
        os.set_blocking(self.master, False)

    def fileno(self):
        return self.slave

    def feed(self, data: bytes):
        os.write(self.master, data)

    def close(self):
        for fd in (self.master, self.slave):
            try:
                os.close(fd)
            except OSError:
                pass


def close_trigger_fds(inp, callbacks):
    """threadsafe_event_trigger() creates a pipe per trigger: close both ends after a case"""
    for fd in list(getattr(inp, "readers", [])):
        try:
            os.close(fd)
        except OSError:
            pass
    for cb in callbacks:
        for cell in cb.__closure__ or ():
            try:
                v = cell.cell_contents
            except ValueError:
                continue
            if isinstance(v, int) and not isinstance(v, bool) and v > 2:
                try:
                    os.close(v)
                except OSError:
                    pass


def fd_count():
    return len(os.listdir("/proc/self/fd"))
