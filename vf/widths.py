"""Independent column-width table for the small alphabet used by C10/C11.

Widths come from the `wcwidth` package (pure Python tables), not from cwcwidth which the
library uses.  The alphabet is restricted to characters on which both agree; that is
checked at import and a disagreement is a harness error, never a violation.
"""
from __future__ import annotations

import wcwidth as _w

from .common import HarnessError

NARROW = "ab"
WIDE = "Ｅ中"
ZERO = "̤́"
ALPHABET = NARROW + WIDE + ZERO
# further characters for the generated (not enumerated) part: zero-width characters of other kinds (enclosing mark, Thai
# vowel sign, Devanagari sign, variation selector, zero-width space, Cyrillic enclosing mark) and other double-width ones
EXTRA_ZERO = "".join(ch for ch in "\u20dd\u0e31\u0941\ufe0f\u200b\u0488" if _w.wcwidth(ch) == 0)
EXTRA_WIDE = "".join(ch for ch in "\U0001f600\u3042\uac00" if _w.wcwidth(ch) == 2)

WIDTH = {ch: _w.wcwidth(ch) for ch in ALPHABET + " xyzXYZ0123456789"}
for ch in NARROW + " ":
    if WIDTH[ch] != 1:
        raise HarnessError(f"width table: {ch!r} is not narrow")
for ch in WIDE:
    if WIDTH[ch] != 2:
        raise HarnessError(f"width table: {ch!r} is not wide")
for ch in ZERO:
    if WIDTH[ch] != 0:
        raise HarnessError(f"width table: {ch!r} is not zero-width")


def check_agreement():
    import cwcwidth

    global EXTRA_ZERO, EXTRA_WIDE
    for ch, w in WIDTH.items():
        if cwcwidth.wcwidth(ch) != w:
            raise HarnessError(f"wcwidth and cwcwidth disagree on {ch!r}")
    for ch in EXTRA_ZERO + EXTRA_WIDE:
        if cwcwidth.wcwidth(ch) != _w.wcwidth(ch):
            raise HarnessError(f"wcwidth and cwcwidth disagree on {ch!r}: drop it from widths.EXTRA_*")


def cw(ch):
    try:
        return WIDTH[ch]
    except KeyError:
        w = _w.wcwidth(ch)
        WIDTH[ch] = w
        return w


def total(cells):
    return sum(cw(c[0]) for c in cells)


def layout(cells):
    """-> list of (x, w, cell, base_index) ; marks (w == 0) carry the index of the base cell they attach to (-1: none)"""
    out = []
    x = 0
    base = -1
    for c in cells:
        w = cw(c[0])
        if w > 0:
            base += 1
        out.append((x, w, c, base))
        x += w
    return out


def split_layout(desc_cells, cuts):
    """cut a cell list into runs at the given positions (sorted, may repeat -> empty runs)"""
    runs, prev = [], 0
    for c in list(cuts) + [len(desc_cells)]:
        runs.append(desc_cells[prev:c])
        prev = c
    return runs
