#!/bin/bash
# MANIFEST.setup_cmd: offline. Makes sure /venv has what the checks import; optional extras go to /verif/.deps
set -u
cd "$(dirname "$0")"
WH=/opt/veriftools/wheels
PY=/venv/bin/python
need() { "$PY" -c "import $1" 2>/dev/null; }
for pkg in hypothesis pyte wcwidth; do
  if ! need "$pkg"; then
    /venv/bin/pip install --no-index --find-links "$WH" "$pkg" >/dev/null 2>&1 || \
      "$PY" -m pip install --no-index --find-links "$WH" --target "$(pwd)/.deps" "$pkg" >/dev/null 2>&1 || \
      echo "setup: could not install $pkg (checks that need it will report a harness error)" >&2
  fi
done
# atheris (coverage-guided fuzzing) is optional: thorough tiers use it when importable
if ! PYTHONPATH="$(pwd)/.deps" "$PY" -c "import atheris" 2>/dev/null; then
  "$PY" -m pip install --no-index --find-links "$WH" --target "$(pwd)/.deps" atheris >/dev/null 2>&1 || \
    echo "setup: atheris not installed (fuzz stages are skipped and say so in the evidence)" >&2
fi
PYTHONPATH="$(pwd)/.deps:$(pwd)" "$PY" - <<'PY'
import sys
sys.path.insert(0, "/repo")
import hypothesis, curtsies, blessed, cwcwidth
print("setup ok: hypothesis", hypothesis.__version__, "curtsies from", curtsies.__file__)
PY
